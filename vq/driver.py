"""Shard a check over worker subprocesses, aggregate events, write evidence, print the verdict."""
import hashlib
import importlib
import json
import os
import shutil
import subprocess
import sys
import tempfile
import time
from collections import Counter

from . import kf
from .repo import REPO, VERIF

PY = sys.executable
HASHSEEDS = ["0", "1", "2", "3"]


def _digest(obj):
    return hashlib.sha1(json.dumps(obj, sort_keys=True, default=str).encode()).hexdigest()[:12]


def run_check(pid, tier, seed, nworkers=None, verbose=True):
    t0 = time.time()
    mod = importlib.import_module(f"vq.props.{pid.lower()}")
    nworkers = nworkers or int(os.environ.get("VQ_WORKERS", "16"))
    nworkers = min(nworkers, getattr(mod, "MAX_WORKERS", 16))
    scratch = tempfile.mkdtemp(prefix=f"vq-{pid}-")
    env = dict(os.environ)
    env["PYTHONPATH"] = VERIF + os.pathsep + REPO
    env["PYTHONDONTWRITEBYTECODE"] = "1"
    env["QLASSKIT_VERIF"] = "1"
    env["TMPDIR"] = scratch
    env["VQ_SCRATCH"] = scratch
    env.pop("PYTHONSTARTUP", None)
    procs = []
    watchdog = float(getattr(mod, "WATCHDOG", {}).get(tier, 1500))
    for s in range(nworkers):
        e = dict(env)
        e["PYTHONHASHSEED"] = HASHSEEDS[s % len(HASHSEEDS)]
        out = os.path.join(scratch, f"w{s}.jsonl")
        p = subprocess.Popen(
            [PY, "-m", "vq.worker", pid, tier, str(seed), str(s), str(nworkers), out],
            env=e, cwd=VERIF, stdout=subprocess.DEVNULL, stderr=open(os.path.join(scratch, f"w{s}.err"), "w"),
        )
        procs.append((p, out, s))
    dead = []
    for p, out, s in procs:
        left = max(1.0, watchdog - (time.time() - t0))
        try:
            rc = p.wait(timeout=left)
            if rc != 0:
                dead.append((s, f"exit {rc}"))
        except subprocess.TimeoutExpired:
            p.kill()
            dead.append((s, "watchdog"))

    # ---- aggregate
    status = Counter()
    counters = Counter()
    cov = Counter()
    keys = set()
    evals = 0
    samples = []
    fails = []  # (fail, case, idx)
    hashseeds = set()
    finished = 0
    errors = []
    for p, out, s in procs:
        if not os.path.exists(out):
            continue
        with open(out) as f:
            for line in f:
                try:
                    r = json.loads(line)
                except Exception:
                    continue
                if "hello" in r:
                    hashseeds.add(r["hashseed"])
                    continue
                if "done" in r:
                    finished += 1
                    continue
                status[r.get("status", "?")] += 1
                evals += int(r.get("evals", 0))
                for k, v in (r.get("counters") or {}).items():
                    counters[k] += v
                for tg in r.get("cov") or []:
                    cov[tg] += 1
                if r.get("nontrivial") and r.get("key") is not None:
                    keys.add(r["key"])
                if r.get("sample") is not None and len(samples) < 8 and r.get("status") == "checked":
                    samples.append(r["sample"])
                if r.get("status") in ("error", "timeout") and len(errors) < 8:
                    errors.append({"error": r.get("error"), "tb": r.get("tb"), "case": r.get("case")})
                for fl in r.get("fails") or []:
                    fl["_hs"] = r.get("hs")
                    fails.append((fl, r.get("case"), r["i"]))
    for s, why in dead:
        try:
            with open(os.path.join(scratch, f"w{s}.err")) as f:
                errors.append({"worker": s, "why": why, "stderr": f.read()[-2000:]})
        except Exception:
            pass

    # ---- verdict
    openf = kf.open_findings(pid)
    known = Counter()
    violations = []
    seen = set()
    kinputs = None if os.environ.get("VQ_IGNORE_KNOWN_INPUTS") else kf.known_inputs(pid)
    for fl, case, idx in fails:
        pred = fl.get("pred")
        if pred and pred in openf:
            # on the fixed corpus a listed mechanism is keyed by input: a corpus case that is not among the
            # recorded witnesses of this mechanism (under this hash seed) is a different violation
            if isinstance(case, dict) and case.get("origin") == "fixed" and kinputs is not None:
                wid = f"{_digest(case)}:{fl.get('_hs')}"
                if wid not in kinputs.get(pred, set()):
                    fl = dict(fl, kind=str(fl.get("kind")) + "_new_input_for_listed_mechanism", msg=f"[fixed-corpus case not among the recorded witnesses of {pred}] " + str(fl.get("msg")))
                    violations.append((fl, case, idx))
                    continue
            known[pred] += 1
            continue
        sig = (fl.get("kind"), _digest(case))
        if sig in seen:
            continue
        seen.add(sig)
        violations.append((fl, case, idx))

    os.makedirs(os.path.join(VERIF, "replays"), exist_ok=True)
    if os.environ.get("VQ_DUMP"):
        with open(os.path.join(VERIF, "replays", f"{pid}-violations.jsonl"), "w") as f:
            for fl, case, idx in violations:
                f.write(json.dumps({"fail": fl, "case": case, "i": idx}, default=str) + "\n")
            for fl, case, idx in fails:
                if fl.get("pred") and fl["pred"] in openf:
                    f.write(json.dumps({"known": fl["pred"], "fail": fl, "case": case, "i": idx, "wid": f"{_digest(case)}:{fl.get('_hs')}"}, default=str) + "\n")
    lines = []
    vio_kinds = Counter()
    for fl, case, idx in violations:
        vio_kinds[fl.get("kind")] += 1
        if vio_kinds[fl.get("kind")] > 5:
            continue
        rp = os.path.join(VERIF, "replays", f"{pid}-{_digest([fl.get('kind'), case])}.json")
        with open(rp, "w") as f:
            json.dump({"property": pid, "tier": tier, "seed": seed, "index": idx, "case": case, "fail": fl}, f, indent=1, default=str)
        lines.append(f"VIOLATION property={pid} replay={rp}")
        if verbose:
            lines.append(f"  kind={fl.get('kind')} {str(fl.get('msg'))[:300]}")
    for pred, n in sorted(known.items()):
        f = openf[pred]
        lines.append(f"KNOWN-FINDING: property={pid} {f['id']} {f['what']} (reproduced on {n} cases)")
    for pred, f in sorted(openf.items()):
        if pred not in known:
            lines.append(f"KNOWN-FINDING-ABSENT: property={pid} {f['id']} not reproduced in this run")

    inconclusive = []
    total = sum(status.values())
    if dead:
        inconclusive.append(f"workers died: {dead}")
    if finished < len(procs) - len(dead):
        inconclusive.append("worker output truncated")
    if status.get("checked", 0) == 0:
        inconclusive.append("no case was checked")
    for name in getattr(mod, "DECIDING", []):
        if counters.get(name, 0) == 0:
            inconclusive.append(f"deciding monitor '{name}' observed nothing")
    nerr, nto = status.get("error", 0), status.get("timeout", 0)
    if total and nerr > max(3, 0.02 * total):
        inconclusive.append(f"{nerr} of {total} cases ended in a harness error")
    if total and nto > max(5, 0.15 * total):
        inconclusive.append(f"{nto} of {total} cases hit the per-case deadline (loaded machine?)")
    if hasattr(mod, "inconclusive"):
        inconclusive.extend(mod.inconclusive(tier, status, counters, cov) or [])

    wall = time.time() - t0
    if len(keys) < 2 and not inconclusive:
        inconclusive.append("fewer than 2 distinct non-trivial cases")
    evidence = {
        "property_id": pid,
        "tier": tier,
        "seed": seed,
        "level": getattr(mod, "LEVEL", "exploration"),
        "coverage": {
            "evaluations": int(max(evals, status.get("checked", 0))),
            "distinct_nontrivial": len(keys),
            "rule": mod.RULE,
            "samples": samples or ["(none)"],
            "cases_by_status": dict(status),
            "monitor_counters": dict(sorted(counters.items())),
            "coverage_tags": dict(sorted(cov.items())),
            "hash_seeds": sorted(x for x in hashseeds if x is not None),
            "known_finding_hits": dict(known),
            "inconclusive": inconclusive,
            "harness_errors": errors[:6],
            "workers": len(procs),
        },
        "assumptions": getattr(mod, "ASSUMPTIONS", []),
        "wall_s": round(wall, 2),
        "violations": len(violations),
    }
    if getattr(mod, "EXHAUSTIVE", {}).get(tier):
        evidence["coverage"]["exhaustive"] = True
    os.makedirs(os.path.join(VERIF, "evidence"), exist_ok=True)
    with open(os.path.join(VERIF, "evidence", f"{pid}.json"), "w") as f:
        json.dump(evidence, f, indent=1, default=str)
    shutil.rmtree(scratch, ignore_errors=True)

    for ln in lines:
        print(ln)
    summ = f"{pid} {tier} seed={seed}: cases={dict(status)} distinct_nontrivial={len(keys)} evals={evals} violations={len(violations)} known={dict(known)} wall={wall:.1f}s"
    print(summ)
    if violations:
        return 1
    if inconclusive:
        for r in inconclusive:
            print(f"INCONCLUSIVE property={pid} reason={r}")
        return 2
    return 0
