"""CLI:  python -m vq.run check <ID> [--tier quick|thorough] [--seed N]  |  replay <file>  |  selftest"""
import argparse
import importlib
import json
import os
import sys


def main():
    ap = argparse.ArgumentParser()
    sub = ap.add_subparsers(dest="cmd", required=True)
    c = sub.add_parser("check")
    c.add_argument("pid")
    c.add_argument("--tier", default=None)
    c.add_argument("--seed", type=int, default=None)
    c.add_argument("--workers", type=int, default=None)
    r = sub.add_parser("replay")
    r.add_argument("path")
    sub.add_parser("selftest")
    a = ap.parse_args()
    if a.cmd == "check":
        from .driver import run_check

        tier = a.tier or os.environ.get("VERIF_TIER") or "quick"
        seed = a.seed if a.seed is not None else int(os.environ.get("VERIF_SEED", "0") or 0)
        sys.exit(run_check(a.pid.upper(), tier, seed, a.workers))
    if a.cmd == "replay":
        from . import kf, repo

        repo.bind()
        with open(a.path) as f:
            rp = json.load(f)
        mod = importlib.import_module(f"vq.props.{rp['property'].lower()}")
        if hasattr(mod, "setup"):
            mod.setup()
        res = mod.check(rp["case"])
        print(json.dumps(res, indent=1, default=str)[:6000])
        openf = kf.open_findings(rp["property"])
        bad = [f for f in res.get("fails") or [] if not (f.get("pred") and f["pred"] in openf)]
        if bad:
            print(f"VIOLATION property={rp['property']} replay={a.path}")
            sys.exit(1)
        sys.exit(0)
    if a.cmd == "selftest":
        from .selftest import main as st

        sys.exit(st())


if __name__ == "__main__":
    main()
