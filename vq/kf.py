"""Known findings: committed file, never written at run time."""
import json
import os

from .repo import VERIF

PATH = os.path.join(VERIF, "known_findings.json")


def load():
    if not os.path.exists(PATH):
        return {"findings": [], "fixed": []}
    with open(PATH) as f:
        return json.load(f)


def open_findings(prop):
    """predicate name -> finding record, for open findings of this property"""
    out = {}
    for f in load().get("findings", []):
        if f.get("status") == "open" and prop in ([f["property"]] + f.get("also", [])):
            out[f["predicate"]] = f
    return out


INPUTS = os.path.join(VERIF, "known_inputs.json")


def known_inputs(prop):
    """pred -> set of '<case digest>:<hash seed>' witnesses on the fixed corpus (committed file, never written at run time)"""
    if not os.path.exists(INPUTS):
        return None
    with open(INPUTS) as f:
        d = json.load(f)
    if prop not in d:
        return None
    return {k: set(v) for k, v in d[prop].items()}
