"""Known findings: committed file, never written at run time."""
import json
import os

from .repo import VERIF

PATH = os.path.join(VERIF, "known_findings.json")


def load():
    if not os.path.exists(PATH):
        return {"findings": [], "fixed": []}
    with open(PATH) as f:
        return json.load(f)


def open_findings(prop):
    """predicate name -> finding record, for open findings of this property"""
    out = {}
    for f in load().get("findings", []):
        if f.get("status") == "open" and prop in ([f["property"]] + f.get("also", [])):
            out[f["predicate"]] = f
    return out
