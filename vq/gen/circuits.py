"""Seeded generator of circuits over the library's gate set, as JSON: {"nq": n, "gates": [[name, wires, param], ...]}."""
import itertools
import math
import random

ONE = ["x", "y", "z", "h", "s", "t"]
CLASSICAL = ["x", "cx", "ccx", "mcx"]
ANGLES = [math.pi / 2, math.pi / 4, math.pi / 8, 1.0, 2.5, -math.pi / 2, -0.3, 3 * math.pi / 4, math.pi, -math.pi, 3 * math.pi / 2, -5 * math.pi / 4, 4.0, 2 * math.pi, 7.5, -6.0, 0.0]


def build(case, enhanced=False, name="qc"):
    """-> QCircuit built through the library's public methods"""
    from qlasskit.qcircuit import QCircuit, QCircuitEnhanced, gates

    qc = (QCircuitEnhanced if enhanced else QCircuit)(case["nq"], name=name)
    for nm, w, p in case["gates"]:
        if nm == "barrier":
            qc.barrier()
        elif nm in ONE:
            getattr(qc, nm)(w[0])
        elif nm == "i":
            qc.append(gates.I(), list(w))
        elif nm == "p":
            qc.append(gates.P(), list(w), p)
        elif nm == "cx":
            qc.cx(w[0], w[1])
        elif nm == "cz":
            qc.cz(w[0], w[1])
        elif nm == "cp":
            qc.cp(p, w[0], w[1])
        elif nm == "ccx":
            qc.ccx(w[0], w[1], w[2])
        elif nm == "mcx":
            qc.mcx(list(w[:-1]), w[-1])
        elif nm == "mcz":
            qc.mctrl(gates.Z(), list(w[:-1]), w[-1])
        elif nm == "mctrlx":
            qc.mctrl(gates.X(), list(w[:-1]), w[-1])
        elif nm == "swap":
            qc.swap(w[0], w[1])
        else:
            raise ValueError(nm)
    return qc


def rand_gate(rng, nq, pool):
    nm = rng.choice(pool)
    if nm == "barrier":
        return ["barrier", [], None]
    if nm in ONE or nm == "i":
        return [nm, [rng.randrange(nq)], None]
    if nm == "p":
        return [nm, [rng.randrange(nq)], rng.choice(ANGLES)]
    if nm in ("cx", "cz", "swap") and nq >= 2:
        return [nm, rng.sample(range(nq), 2), None]
    if nm == "cp" and nq >= 2:
        return [nm, rng.sample(range(nq), 2), rng.choice(ANGLES)]
    if nm == "ccx" and nq >= 3:
        return [nm, rng.sample(range(nq), 3), None]
    if nm in ("mcx", "mcz", "mctrlx") and nq >= 3:
        k = rng.randint(3, min(nq, 6))
        if nm == "mcx" and rng.random() < 0.3:
            k = rng.randint(2, min(nq, 6))
        return [nm, rng.sample(range(nq), k), None]
    return ["x", [rng.randrange(nq)], None]


def rand_circuit(rng, nq=None, ngates=None, pool=None, p_classical=0.6):
    nq = nq or rng.randint(2, 6)
    ngates = ngates if ngates is not None else rng.randint(0, 14)
    full = pool or (CLASSICAL * 3 + ["h", "z", "s", "t", "y", "swap", "cz", "cp", "p", "barrier", "barrier", "mcz"])
    gl = []
    mode = rng.random() < p_classical
    for _ in range(ngates):
        if rng.random() < 0.25:
            mode = not mode
        if mode:
            g = rand_gate(rng, nq, CLASSICAL + ["barrier"] if rng.random() < 0.9 else full)
        else:
            g = rand_gate(rng, nq, full)
        gl.append(g)
    return {"nq": nq, "gates": gl}


def structured(rng):
    """shapes named in DESIGN section 3"""
    out = []
    # swap from three CX, alone / inside a larger run / around non-classical separators
    for nq in (2, 3, 4):
        a, b = rng.sample(range(nq), 2)
        sw = [["cx", [a, b], None], ["cx", [b, a], None], ["cx", [a, b], None]]
        out.append({"nq": nq, "gates": sw})
        out.append({"nq": nq, "gates": [["h", [a], None]] + sw + [["h", [b], None]]})
        out.append({"nq": nq, "gates": [["x", [a], None]] + sw + [["barrier", [], None], ["z", [a], None]] + sw})
    # compute - copy - uncompute
    out.append({"nq": 4, "gates": [["ccx", [0, 1, 2], None], ["cx", [2, 3], None], ["ccx", [0, 1, 2], None]]})
    # cancelling pairs at start / middle / end, around barriers
    out.append({"nq": 2, "gates": [["x", [0], None], ["x", [0], None], ["cx", [0, 1], None]]})
    out.append({"nq": 2, "gates": [["cx", [0, 1], None], ["x", [0], None], ["barrier", [], None], ["x", [0], None]]})
    out.append({"nq": 3, "gates": [["h", [0], None], ["cx", [0, 1], None], ["cx", [0, 1], None], ["h", [0], None]]})
    # gates on the highest qubit, section writing a qubit then using it as control
    out.append({"nq": 5, "gates": [["x", [4], None], ["cx", [4, 0], None], ["mcx", [0, 1, 2, 4], None], ["h", [4], None], ["cx", [4, 3], None]]})
    out.append({"nq": 3, "gates": [["cx", [0, 1], None], ["cx", [1, 2], None], ["x", [1], None], ["ccx", [1, 2, 0], None]]})
    # barriers at every position relative to section boundaries
    out.append({"nq": 2, "gates": [["barrier", [], None], ["x", [0], None], ["barrier", [], None], ["cx", [0, 1], None], ["barrier", [], None], ["barrier", [], None], ["h", [0], None], ["barrier", [], None], ["x", [1], None], ["barrier", [], None]]})
    out.append({"nq": 2, "gates": [["h", [0], None], ["barrier", [], None], ["x", [0], None]]})
    out.append({"nq": 2, "gates": []})
    out.append({"nq": 1, "gates": [["x", [0], None]]})
    out.append({"nq": 2, "gates": [["barrier", [], None]]})
    out.append({"nq": 6, "gates": [["mcx", [0, 1, 2, 3, 4, 5], None], ["h", [5], None], ["mcx", [5, 4, 3, 0], None]]})
    return out


def enum_small(nq=3, maxlen=3):
    """all circuits of <= maxlen gates over nq qubits from {X, CX, CCX, H, barrier}"""
    atoms = [["barrier", [], None]]
    for q in range(nq):
        atoms.append(["x", [q], None])
        atoms.append(["h", [q], None])
    for a, b in itertools.permutations(range(nq), 2):
        atoms.append(["cx", [a, b], None])
    for t in range(nq):
        cs = [q for q in range(nq) if q != t]
        atoms.append(["ccx", cs[:2] + [t], None])
    for L in range(0, maxlen + 1):
        for combo in itertools.product(atoms, repeat=L):
            yield {"nq": nq, "gates": [list(g) for g in combo]}
