"""Seeded typed generator of programs in qlasskit's documented subset (core stream), of minimal
programs for single constructs (finding streams) and of out-of-subset programs.

A case is {"src", "args": [[name, descriptor]...], "ret": descriptor, "feat": [tags]} with the type
descriptors of vq.oracles.codec.
"""
import random

from ..oracles import codec
from ..oracles.refsem import const_w, mul_w

NAMES = ["a", "b", "c", "d", "e", "f", "g", "h"]
HOSTILE = ["x0", "x1", "x2", "q0", "q1", "i", "l", "s", "t", "ret", "f_a", "test", "v0"]
INT_W = [2, 2, 3, 4, 4, 5, 6, 8]
CMP = ["==", "!=", "<", "<=", ">", ">="]


class Cfg:
    def __init__(self, **kw):
        self.max_bits = 10
        self.mul_max_w = 4
        self.p_matrix = 0.2
        self.p_dup_type = 0.1
        self.max_args = 3
        self.depth = 3
        self.stmts = 3
        self.p_hostile = 0.08
        self.p_types = (0.3, 0.75, 0.87)  # cumulative: bool, int, tuple; rest list/matrix
        self.widths = INT_W
        self.allow = {"mul", "pow", "mod", "shift", "ifexp", "tuple", "list", "if", "for", "multi", "aug", "builtins", "varindex", "bitindex", "cast", "cmp_mixed", "sub", "matrix"}
        self.ret_kinds = ["bool", "int", "int", "tuple"]
        self.__dict__.update(kw)


class PG:
    def __init__(self, rng, cfg=None):
        self.rng = rng
        self.cfg = cfg or Cfg()

    # ---------------------------------------------------------------- helpers
    def fresh(self):
        pool = [n for n in NAMES if n not in self.env and n not in self.used]
        if self.rng.random() < self.cfg.p_hostile:
            hp = [n for n in HOSTILE if n not in self.env and n not in self.used]
            if hp:
                n = self.rng.choice(hp)
                self.used.add(n)
                self.feat.add("hostile_name")
                return n
        n = pool[0] if pool else f"v{len(self.used)}"
        self.used.add(n)
        return n

    def vars_of(self, pred):
        return [n for n, t in self.env.items() if pred(t)]

    @staticmethod
    def is_int(t):
        return isinstance(t, str) and t.startswith("Qint")

    @staticmethod
    def w_of(t):
        return int(t[4:])

    def allow(self, k):
        return k in self.cfg.allow

    # ---------------------------------------------------------------- expressions
    def lit(self, wmax=None):
        r = self.rng.random()
        if r < 0.35:
            c = self.rng.choice([0, 1, 2, 3])
        elif r < 0.7:
            c = self.rng.randint(0, 15)
        elif r < 0.9:
            c = self.rng.choice([4, 8, 16, 5, 6, 7, 9, 10, 12, 15, 17, 31, 32])
        else:
            c = self.rng.randint(0, 255)
        if wmax is not None:
            c = c % (1 << wmax)
        return str(c), const_w(c)

    def int_atoms(self):
        out = []
        for n, t in self.env.items():
            if self.is_int(t):
                out.append((n, self.w_of(t)))
            elif isinstance(t, list):
                for k, x in enumerate(t):
                    if self.is_int(x):
                        out.append((f"{n}[{k}]", self.w_of(x)))
                    elif isinstance(x, list):
                        for k2, y in enumerate(x):
                            if self.is_int(y):
                                out.append((f"{n}[{k}][{k2}]", self.w_of(y)))
        return out

    def bool_atoms(self):
        out = []
        for n, t in self.env.items():
            if t == "bool":
                out.append(n)
            elif isinstance(t, list):
                for k, x in enumerate(t):
                    if x == "bool":
                        out.append(f"{n}[{k}]")
                    elif isinstance(x, list):
                        for k2, y in enumerate(x):
                            if y == "bool":
                                out.append(f"{n}[{k}][{k2}]")
        return out

    def int_lists(self):
        """names of homogeneous int lists (len>=2)"""
        return [(n, t) for n, t in self.env.items() if isinstance(t, list) and len(t) >= 2 and all(self.is_int(x) and x == t[0] for x in t)]

    def bool_lists(self):
        return [(n, t) for n, t in self.env.items() if isinstance(t, list) and len(t) >= 2 and all(x == "bool" for x in t)]

    def gint(self, d):
        rng = self.rng
        atoms = self.int_atoms()
        if d <= 0 or rng.random() < 0.22 or not atoms:
            if atoms and rng.random() < 0.75:
                return rng.choice(atoms)
            return self.lit()
        ops = ["+", "+", "&", "|", "^", "~"]
        if self.allow("sub"):
            ops += ["-", "-"]
        if self.allow("mul"):
            ops += ["*", "*"]
        if self.allow("shift"):
            ops += ["<<", ">>"]
        if self.allow("ifexp"):
            ops += ["ite", "ite"]
        if self.allow("pow"):
            ops += ["**"]
        if self.allow("mod"):
            ops += ["%"]
        if self.allow("builtins"):
            ops += ["minmax", "sum"]
        if self.allow("varindex"):
            ops += ["varindex"]
        if self.allow("cast"):
            ops += ["cast"]
        if self.int_lists():
            if self.allow("varindex"):
                ops += ["varindex"] * 3
            if self.allow("builtins"):
                ops += ["sum", "minmax_list"]
        op = rng.choice(ops)
        if op in ("+", "-", "&", "|", "^"):
            (l, wl), (r, wr) = self.gint(d - 1), self.gint(d - 1)
            if l.isdigit() and r.isdigit():
                l, wl = rng.choice(atoms)
            self.feat.add(f"op{op}:{wl},{wr}")
            return f"({l} {op} {r})", max(wl, wr)
        if op == "*":
            (l, wl) = self.gint(d - 1)
            if l.isdigit() or wl > self.cfg.mul_max_w:
                small = [x for x in atoms if x[1] <= self.cfg.mul_max_w]
                if not small:
                    return self.gint(d - 1)
                l, wl = rng.choice(small)
            if rng.random() < 0.5:
                r, wr = self.lit(4)
                self.feat.add(f"mulconst:{'even' if int(r) % 2 == 0 else 'odd'}")
                if rng.random() < 0.3:
                    l, wl, r, wr = r, wr, l, wl
            else:
                (r, wr) = self.gint(d - 1)
                if wr > self.cfg.mul_max_w:
                    r, wr = self.lit(3)
            self.feat.add(f"op*:{wl},{wr}")
            return f"({l} * {r})", mul_w(max(wl, wr))
        if op in ("<<", ">>"):
            (l, wl) = self.gint(d - 1)
            if l.isdigit():
                l, wl = rng.choice(atoms)
            k = rng.randint(0, min(wl, 4))
            self.feat.add(f"op{op}")
            return f"({l} {op} {k})", wl
        if op == "~":
            (l, wl) = self.gint(d - 1)
            self.feat.add("op~")
            return f"(~{l})", wl
        if op == "ite":
            (l, wl), (r, wr) = self.gint(d - 1), self.gint(d - 1)
            c = self.gbool(d - 1)
            self.feat.add(f"ifexp_int:{'mixed' if wl != wr else 'same'}")
            return f"({l} if {c} else {r})", max(wl, wr)
        if op == "**":
            small = [x for x in atoms if x[1] <= min(3, self.cfg.mul_max_w)]
            if not small:
                return self.gint(d - 1)
            (l, wl) = rng.choice(small)
            k = rng.choice([0, 1, 2, 2, 3])
            w = wl
            if k == 0:
                w = 2
            for _ in range(k - 1):
                w = mul_w(max(w, wl))
            self.feat.add(f"pow:{k}")
            return f"({l} ** {k})", w
        if op == "%":
            (l, wl) = self.gint(d - 1)
            if l.isdigit():
                l, wl = rng.choice(atoms)
            m = rng.choice([1, 2, 4, 8, 16])
            self.feat.add("mod2n")
            return f"({l} % {m})", max(wl, const_w(m))
        if op == "minmax":
            k = rng.choice([2, 2, 3])
            xs = [self.gint(min(d - 1, 1)) for _ in range(k)]
            fn = rng.choice(["max", "min"])
            self.feat.add(f"{fn}{k}")
            return f"{fn}({', '.join(x for x, _ in xs)})", max(w for _, w in xs)
        if op == "minmax_list":
            n, t = rng.choice(self.int_lists())
            fn = rng.choice(["max", "min"])
            self.feat.add(f"{fn}_list")
            return f"{fn}({n})", self.w_of(t[0])
        if op == "sum":
            ls = self.int_lists()
            if ls:
                n, t = rng.choice(ls)
                self.feat.add("sum_list")
                return f"sum({n})", self.w_of(t[0])
            return self.gint(d - 1)
        if op == "varindex":
            ls = self.int_lists()
            idx = [(n, w) for n, w in self.int_atoms() if "[" not in n and (1 << w) >= 2]
            idx = [(n, w) for n, w in idx if self.is_int(self.env.get(n, ""))]
            mats = [(n, t) for n, t in self.env.items() if isinstance(t, list) and t and all(isinstance(x, list) and x == t[0] for x in t) and all(self.is_int(y) and y == t[0][0] for y in t[0])]
            if mats and len(idx) >= 1 and rng.random() < 0.5:
                n, t = rng.choice(mats)
                (i, _), (j, _) = rng.choice(idx), rng.choice(idx)
                self.feat.add("varindex_matrix")
                return f"{n}[{i}][{j}]", self.w_of(t[0][0])
            if ls and idx:
                n, t = rng.choice(ls)
                i, wi = rng.choice(idx)
                self.feat.add("varindex_list")
                return f"{n}[{i}]", self.w_of(t[0])
            cl = [(n, t) for n, t in self.constlists.items()]
            if idx and cl and rng.random() < 0.8:
                i, wi = rng.choice(idx)
                n, elts = rng.choice(cl)
                self.feat.add("varindex_const")
                return f"{n}[{i}]", max(const_w(e) for e in elts)
            return self.gint(d - 1)
        if op == "cast":
            w = rng.choice([2, 4, 8])
            c = rng.randint(0, (1 << w) - 1)
            self.feat.add("cast")
            return f"Qint{w}({c})", w
        raise AssertionError(op)

    def gbool(self, d):
        rng = self.rng
        batoms = self.bool_atoms()
        iatoms = self.int_atoms()
        if d <= 0 or rng.random() < 0.18:
            if batoms and rng.random() < 0.8:
                return rng.choice(batoms)
            iv = [n for n, t in self.env.items() if self.is_int(t)]
            if iv and self.allow("bitindex"):
                n = rng.choice(iv)
                self.feat.add("bitindex")
                return f"{n}[{rng.randrange(self.w_of(self.env[n]))}]"
            if batoms:
                return rng.choice(batoms)
            return rng.choice(["True", "False"])
        ops = ["and", "or", "not", "^", "cmp", "cmp", "cmp", "beq"]
        if self.allow("ifexp"):
            ops.append("ite")
        if self.allow("builtins"):
            ops.append("allany")
        ops.append("bitops")
        ops.append("tupeq")
        tv_ = [(n, t) for n, t in self.env.items() if isinstance(t, list) and all(not isinstance(x, list) for x in t)]
        if any(t1 == t2 and n1 < n2 for n1, t1 in tv_ for n2, t2 in tv_):
            ops += ["tupeq"] * 4
        if self.bool_lists() and self.allow("builtins"):
            ops += ["allany"] * 2
        op = rng.choice(ops)
        if op in ("and", "or"):
            k = 2 if rng.random() < 0.7 else 3
            self.feat.add(f"bool_{op}{k}")
            return "(" + f" {op} ".join(self.gbool(d - 1) for _ in range(k)) + ")"
        if op == "not":
            self.feat.add("bool_not")
            return f"(not {self.gbool(d - 1)})"
        if op == "^":
            self.feat.add("bool_xor")
            return f"({self.gbool(d - 1)} ^ {self.gbool(d - 1)})"
        if op == "bitops":
            o = rng.choice(["&", "|"])
            self.feat.add(f"bool_{o}")
            return f"({self.gbool(d - 1)} {o} {self.gbool(d - 1)})"
        if op == "beq":
            o = rng.choice(["==", "!="])
            self.feat.add(f"bool_{o}")
            return f"({self.gbool(d - 1)} {o} {self.gbool(d - 1)})"
        if op == "cmp" and iatoms:
            (l, wl), (r, wr) = self.gint(d - 1), self.gint(d - 1)
            if not self.allow("cmp_mixed") and wl != wr:
                return self.gbool(d - 1)
            o = rng.choice(CMP)
            rel = "eq" if wl == wr else ("lt" if wl < wr else "gt")
            self.feat.add(f"cmp{o}:w{rel}")
            return f"({l} {o} {r})"
        if op == "ite":
            self.feat.add("ifexp_bool")
            return f"({self.gbool(d - 1)} if {self.gbool(d - 1)} else {self.gbool(d - 1)})"
        if op == "allany":
            bl = self.bool_lists()
            if bl:
                n, t = rng.choice(bl)
                fn = rng.choice(["all", "any"])
                self.feat.add(fn)
                return f"{fn}({n})"
        if op == "tupeq":
            tv = [(n, t) for n, t in self.env.items() if isinstance(t, list) and all(not isinstance(x, list) for x in t)]
            for n1, t1 in tv:
                for n2, t2 in tv:
                    if n1 < n2 and t1 == t2 and rng.random() < 0.7:
                        self.feat.add("tuple_eq")
                        return f"({n1} {rng.choice(['==', '!='])} {n2})"
        return self.gbool(d - 1)

    # ---------------------------------------------------------------- types
    def rand_type(self, budget, top=True):
        rng = self.rng
        r = rng.random()
        pb, pi, pt = self.cfg.p_types
        if r < pb or budget < 2:
            return "bool"
        if r < pi or not top or budget < 4:
            ws = [w for w in self.cfg.widths if w <= budget]
            return f"Qint{rng.choice(ws)}" if ws else "bool"
        if r < pt and self.allow("tuple"):
            k = rng.randint(2, 3)
            out = []
            for _ in range(k):
                out.append(self.rand_type(max(1, budget // k), top=False))
            return out
        if self.allow("list"):
            if rng.random() < self.cfg.p_matrix and self.allow("matrix") and budget >= 4:
                e = rng.choice(["bool", "Qint2"])
                n, m = rng.choice([(2, 2), (2, 3), (3, 2)])
                if codec.size(e) * n * m <= budget:
                    self.feat.add("matrix_arg")
                    return [[e] * m for _ in range(n)]
            e = rng.choice(["bool", "Qint2", "Qint2", "Qint3", "Qint4"])
            n = rng.randint(2, 4)
            while codec.size(e) * n > budget and n > 2:
                n -= 1
            if codec.size(e) * n <= budget:
                return [e] * n
        return "bool"

    # ---------------------------------------------------------------- statements
    def stmt(self, body, ind="    "):
        rng = self.rng
        kinds = ["assign", "assign", "assign"]
        ivars = [n for n, t in self.env.items() if self.is_int(t)]
        bvars = [n for n, t in self.env.items() if t == "bool"]
        if ivars or bvars:
            kinds += ["reassign"]
            if self.allow("aug"):
                kinds += ["aug"]
            if self.allow("if"):
                kinds += ["if", "if"]
            if self.allow("for"):
                kinds += ["for", "for"]
        if self.allow("multi"):
            kinds += ["multi"]
        if self.allow("varindex") and ivars and len(self.constlists) < 1:
            kinds += ["constlist"]
        mats = [(n, t) for n, t in self.env.items() if isinstance(t, list) and t and all(isinstance(x, list) and x == t[0] for x in t) and all(y == t[0][0] and not isinstance(y, list) for y in t[0])]
        if self.allow("for") and (self.int_lists() or self.bool_lists()):
            kinds += ["for_len", "for_len"]
        if self.allow("for") and mats:
            kinds += ["for_matrix", "for_matrix"]
        k = rng.choice(kinds)
        d = self.cfg.depth - 1
        if k == "for_len":
            ils, bls = self.int_lists(), self.bool_lists()
            ln, lt = rng.choice(ils + bls)
            acc = self.fresh()
            if lt[0] == "bool":
                body.append(f"{ind}{acc} = {rng.choice(['True', 'False'])}")
                body.append(f"{ind}for i in range(len({ln})):")
                body.append(f"{ind}    {acc} = ({acc} {rng.choice(['and', 'or', '^'])} {ln}[i])")
                self.env[acc] = "bool"
            else:
                body.append(f"{ind}{acc} = 0")
                body.append(f"{ind}for i in range(len({ln})):")
                body.append(f"{ind}    {acc} = ({acc} {rng.choice(['+', '^', '|'])} {ln}[i])")
                self.env[acc] = f"Qint{max(2, self.w_of(lt[0]))}"
            self.feat.add("for_len")
        elif k == "for_matrix":
            mn, mt = rng.choice(mats)
            acc = self.fresh()
            rows, cols = len(mt), len(mt[0])
            el = mt[0][0]
            form = rng.choice(["ij", "rows"])
            if el == "bool":
                body.append(f"{ind}{acc} = False")
                op = rng.choice(["^", "or"])
            else:
                body.append(f"{ind}{acc} = 0")
                op = rng.choice(["+", "^"])
            if form == "ij":
                body.append(f"{ind}for i in range({rows}):")
                body.append(f"{ind}    for j in range({cols}):")
                body.append(f"{ind}        {acc} = ({acc} {op} {mn}[i][j])")
            else:
                body.append(f"{ind}for r in {mn}:")
                body.append(f"{ind}    for x in r:")
                body.append(f"{ind}        {acc} = ({acc} {op} x)")
            self.env[acc] = "bool" if el == "bool" else f"Qint{max(2, self.w_of(el))}"
            self.feat.add(f"for_matrix:{form}")
        elif k == "constlist":
            n = self.fresh()
            elts = [rng.randint(0, rng.choice([3, 15])) for _ in range(rng.randint(2, 4))]
            body.append(f"{ind}{n} = [{', '.join(map(str, elts))}]")
            self.constlists[n] = elts
            self.used.add(n)
        elif k == "assign":
            n = self.fresh()
            r = rng.random()
            if r < 0.45:
                body.append(f"{ind}{n} = {self.gbool(d)}")
                self.env[n] = "bool"
            elif r < 0.9:
                e, w = self.gint(d)
                body.append(f"{ind}{n} = {e}")
                self.env[n] = f"Qint{w}"
            else:
                (e1, w1), e2 = self.gint(d - 1), self.gbool(d - 1)
                body.append(f"{ind}{n} = ({e1}, {e2})")
                self.env[n] = [f"Qint{w1}", "bool"]
                self.feat.add("tuple_var")
        elif k == "reassign":
            if ivars and rng.random() < 0.6:
                n = rng.choice(ivars)
                e, w = self.gint(d - 1)
                o = rng.choice(["+", "^", "&", "|"] + (["-"] if self.allow("sub") else []))
                body.append(f"{ind}{n} = ({n} {o} {e})")
                self.env[n] = f"Qint{max(w, self.w_of(self.env[n]))}"
                self.feat.add("reassign_int")
            elif bvars:
                n = rng.choice(bvars)
                body.append(f"{ind}{n} = ({n} {rng.choice(['and', 'or', '^'])} {self.gbool(d - 1)})")
                self.feat.add("reassign_bool")
        elif k == "aug":
            if ivars:
                n = rng.choice(ivars)
                e, w = self.gint(d - 1)
                o = rng.choice(["+=", "^=", "&=", "|="] + (["-="] if self.allow("sub") else []))
                body.append(f"{ind}{n} {o} {e}")
                self.env[n] = f"Qint{max(w, self.w_of(self.env[n]))}"
                self.feat.add(f"aug{o}")
        elif k == "if":
            # the test is often a bare bool variable; body and else assign independent target sets (in independent order),
            # so that a branch may reassign the test variable itself before other assignments
            c = rng.choice(bvars) if (bvars and rng.random() < 0.4) else self.gbool(d - 1)
            has_else = rng.random() < 0.6
            lines_t, lines_e = [], []
            allv = ivars + bvars
            neww = {}
            for lines, on in ((lines_t, True), (lines_e, has_else)):
                if not on:
                    continue
                targets = rng.sample(allv, k=min(len(allv), rng.randint(1, 3)))
                if c in bvars and lines is lines_e and rng.random() < 0.5 and c not in targets:
                    targets = [c] + targets
                for n in targets:
                    if self.env[n] == "bool":
                        lines.append(f"{ind}    {n} = {self.gbool(d - 1)}")
                    else:
                        e, w = self.gint(d - 1)
                        lines.append(f"{ind}    {n} = {e}")
                        neww[n] = max(neww.get(n, 0), w)
            body.append(f"{ind}if {c}:")
            body.extend(lines_t)
            if has_else:
                body.append(f"{ind}else:")
                body.extend(lines_e)
            for n, w in neww.items():
                self.env[n] = f"Qint{max(w, self.w_of(self.env[n]))}"
            self.feat.add("if_else" if has_else else "if_noelse")
        elif k == "for":
            r = rng.random()
            ils, bls = self.int_lists(), self.bool_lists()
            if r < 0.5 or not (ils or bls):
                kk = rng.randint(1, 3)
                if ivars and rng.random() < 0.7:
                    n = rng.choice(ivars)
                    form = rng.choice(["i", "1", "bit"])
                    # the loop variable outlives the loop: sometimes it is bound before and read afterwards
                    keep_i = ind == "    " and rng.random() < 0.35 and form != "bit"
                    if keep_i:
                        body.append(f"{ind}i = {rng.randint(0, 3)}")
                    if form == "i":
                        body.append(f"{ind}for i in range({kk}):")
                        body.append(f"{ind}    {n} = ({n} + i)")
                        self.env[n] = f"Qint{max(self.w_of(self.env[n]), const_w(kk - 1))}"
                    elif form == "1":
                        e, w = self.gint(1)
                        body.append(f"{ind}for i in range({kk}):")
                        body.append(f"{ind}    {n} += {e}")
                        self.env[n] = f"Qint{max(self.w_of(self.env[n]), w)}"
                    if keep_i:
                        self.env["i"] = f"Qint{const_w(kk - 1)}"
                        self.feat.add("loop_var_after_loop")
                    if form in ("i", "1"):
                        pass
                    else:
                        iv2 = rng.choice(ivars)
                        kk = min(kk, self.w_of(self.env[iv2]))
                        bv = self.fresh()
                        body.append(f"{ind}{bv} = False")
                        body.append(f"{ind}for i in range({kk}):")
                        body.append(f"{ind}    {bv} = ({bv} ^ {iv2}[i])")
                        self.env[bv] = "bool"
                    self.feat.add(f"for_range:{form}")
                elif bvars:
                    n = rng.choice(bvars)
                    body.append(f"{ind}for i in range({kk}):")
                    body.append(f"{ind}    {n} = ({n} {rng.choice(['^', 'and', 'or'])} {self.gbool(1)})")
                    self.feat.add("for_range:bool")
            elif ils and (r < 0.8 or not bls):
                ln, lt = rng.choice(ils)
                acc = self.fresh()
                body.append(f"{ind}{acc} = {rng.choice(['0', '1'])}")
                body.append(f"{ind}for x in {ln}:")
                body.append(f"{ind}    {acc} += x")
                self.env[acc] = f"Qint{max(2, self.w_of(lt[0]))}"
                self.feat.add("for_list_int")
            else:
                ln, lt = rng.choice(bls)
                acc = self.fresh()
                body.append(f"{ind}{acc} = {rng.choice(['True', 'False'])}")
                body.append(f"{ind}for x in {ln}:")
                body.append(f"{ind}    {acc} = ({acc} {rng.choice(['and', 'or', '^'])} x)")
                self.env[acc] = "bool"
                self.feat.add("for_list_bool")
        elif k == "multi":
            same = [(a, b) for a in (ivars + bvars) for b in (ivars + bvars) if a < b and self.env[a] == self.env[b]]
            if same and rng.random() < 0.5:
                a, b = rng.choice(same)
                body.append(f"{ind}{a}, {b} = {b}, {a}")
                self.feat.add("multi_swap")
            else:
                n1, n2 = self.fresh(), self.fresh()
                (e1, w1), e2 = self.gint(d - 1), self.gbool(d - 1)
                body.append(f"{ind}{n1}, {n2} = {e1}, {e2}")
                self.env[n1] = f"Qint{w1}"
                self.env[n2] = "bool"
                self.feat.add("multi_new")

    # ---------------------------------------------------------------- program
    def program(self, fname="f"):
        rng, cfg = self.rng, self.cfg
        self.env, self.used, self.feat = {}, set(), set()
        self.constlists = {}
        nargs = rng.randint(1, cfg.max_args)
        budget = cfg.max_bits
        args = []
        for i in range(nargs):
            if args and isinstance(args[-1][1], list) and rng.random() < cfg.p_dup_type and codec.size(args[-1][1]) <= budget:
                t = args[-1][1]  # two collections of the same type (tuple comparisons, element-wise use)
            else:
                t = self.rand_type(max(1, budget // (nargs - i)))
            n = self.fresh()
            self.env[n] = t
            args.append([n, t])
            budget -= codec.size(t)
            if budget < 1:
                break
        body = []
        for _ in range(rng.randint(0, cfg.stmts)):
            self.stmt(body)
        rk = rng.choice(cfg.ret_kinds)
        d = cfg.depth
        if rk == "bool":
            ret = "bool"
            body.append(f"    return {self.gbool(d)}")
        elif rk == "int":
            e, w = self.gint(d)
            r = rng.random()
            if r < 0.6:
                rw = w
            elif r < 0.8:
                rw = rng.choice([x for x in [2, 3, 4, 5, 6, 7, 8, 12, 16] if x >= w])
                self.feat.add("ret_wider")
            else:
                rw = rng.choice([x for x in [2, 3, 4, 5, 6, 7, 8, 12, 16] if x <= w])
                self.feat.add("ret_narrower" if rw < w else "ret_same")
            ret = f"Qint{rw}"
            body.append(f"    return {e}")
        else:
            k = rng.randint(2, 3)
            elts, ts = [], []
            for _ in range(k):
                if rng.random() < 0.5:
                    elts.append(self.gbool(d - 1))
                    ts.append("bool")
                else:
                    e, w = self.gint(d - 1)
                    elts.append(e)
                    ts.append(f"Qint{w}")
            ret = ts
            body.append(f"    return ({', '.join(elts)})")
            self.feat.add("ret_tuple")
        style = rng.choice([0, 1, 1, 2])
        sig = ", ".join(f"{n}: {codec.annotation(t, style)}" for n, t in args)
        src = f"def {fname}({sig}) -> {codec.annotation(ret, style)}:\n" + "\n".join(body) + "\n"
        return {"src": src, "args": args, "ret": ret, "feat": sorted(self.feat)}


def core_programs(rng, n, cfg=None):
    pg = PG(rng, cfg)
    for _ in range(n):
        yield pg.program()


def intchain_cfg(**kw):
    """small programs that are chains of integer operators over arguments of different widths"""
    d = dict(max_bits=9, max_args=3, depth=3, stmts=1, p_types=(0.1, 0.95, 0.97), widths=[2, 2, 3, 4, 5], mul_max_w=3, ret_kinds=["int", "int", "bool"], p_hostile=0.02)
    d.update(kw)
    c = Cfg(**d)
    c.allow = c.allow - {"builtins", "varindex", "for", "multi", "pow", "cast"}
    return c


def collections_cfg(**kw):
    d = dict(max_bits=10, max_args=3, depth=2, stmts=3, p_types=(0.12, 0.3, 0.45), p_matrix=0.4, mul_max_w=2, p_dup_type=0.5)
    d.update(kw)
    return Cfg(**d)


def small_cfg(**kw):
    d = dict(max_bits=7, max_args=3, depth=2, stmts=2)
    d.update(kw)
    return Cfg(**d)


def frontend_corpus(rng, n):
    pg = PG(rng, small_cfg(max_bits=8))
    return [pg.program()["src"] for _ in range(n)]


# ---------------------------------------------------------------- out-of-subset programs
OUTSIDE_TEMPLATES = [
    ("while", "def f(a: Qint[2]) -> Qint[2]:\n    while a < 3:\n        a = a + 1\n    return a\n", [["a", "Qint2"]], "Qint2"),
    ("range_var", "def f(a: Qint[2]) -> Qint[2]:\n    s = 0\n    for i in range(a):\n        s += 1\n    return s\n", [["a", "Qint2"]], "Qint2"),
    ("chain_cmp", "def f(a: Qint[2], b: Qint[2]) -> bool:\n    return 0 < a < b\n", [["a", "Qint2"], ["b", "Qint2"]], "bool"),
    ("floordiv", "def f(a: Qint[4]) -> Qint[4]:\n    return a // 2\n", [["a", "Qint4"]], "Qint4"),
    ("truediv", "def f(a: Qint[4]) -> Qint[4]:\n    return a / 2\n", [["a", "Qint4"]], "Qint4"),
    ("mod3", "def f(a: Qint[4]) -> Qint[4]:\n    return a % 3\n", [["a", "Qint4"]], "Qint4"),
    ("mod5", "def f(a: Qint[4]) -> Qint[4]:\n    return a % 5\n", [["a", "Qint4"]], "Qint4"),
    ("mod6", "def f(a: Qint[4]) -> Qint[4]:\n    return a % 6\n", [["a", "Qint4"]], "Qint4"),
    ("modvar", "def f(a: Qint[4], b: Qint[4]) -> Qint[4]:\n    return a % b\n", [["a", "Qint4"], ["b", "Qint4"]], "Qint4"),
    ("modvar_const", "def f(a: Qint[4]) -> Qint[4]:\n    b = 3\n    return a % b\n", [["a", "Qint4"]], "Qint4"),
    ("bool_plus_int", "def f(a: Qint[2], b: bool) -> Qint[2]:\n    return a + b\n", [["a", "Qint2"], ["b", "bool"]], "Qint2"),
    ("int_as_bool", "def f(a: Qint[2], b: bool) -> bool:\n    return a and b\n", [["a", "Qint2"], ["b", "bool"]], "bool"),
    ("not_int", "def f(a: Qint[2]) -> bool:\n    return not a\n", [["a", "Qint2"]], "bool"),
    ("wrong_ret", "def f(a: Qint[2]) -> bool:\n    return a + 1\n", [["a", "Qint2"]], "bool"),
    ("wrong_ret2", "def f(a: bool) -> Qint[2]:\n    return a\n", [["a", "bool"]], "Qint2"),
    ("unknown_name", "def f(a: Qint[2]) -> Qint[2]:\n    return a + zz\n", [["a", "Qint2"]], "Qint2"),
    ("varshift", "def f(a: Qint[4], b: Qint[2]) -> Qint[4]:\n    return a << b\n", [["a", "Qint4"], ["b", "Qint2"]], "Qint4"),
    ("varshift_r", "def f(a: Qint[4], b: Qint[2]) -> Qint[4]:\n    return a >> b\n", [["a", "Qint4"], ["b", "Qint2"]], "Qint4"),
    ("slice", "def f(a: Qlist[bool, 3]) -> bool:\n    b = a[0:2]\n    return b[0]\n", [["a", ["bool"] * 3]], "bool"),
    ("lambda", "def f(a: Qint[2]) -> Qint[2]:\n    g = lambda x: x + 1\n    return g(a)\n", [["a", "Qint2"]], "Qint2"),
    ("return_in_if", "def f(a: Qint[2]) -> Qint[2]:\n    if a == 1:\n        return 3\n    return a\n", [["a", "Qint2"]], "Qint2"),
    ("nested_if", "def f(a: Qint[2], b: bool) -> Qint[2]:\n    c = a\n    if b:\n        if a == 1:\n            c = 3\n    return c\n", [["a", "Qint2"], ["b", "bool"]], "Qint2"),
    ("neg", "def f(a: Qint[2]) -> Qint[2]:\n    return -a\n", [["a", "Qint2"]], "Qint2"),
    ("powvar", "def f(a: Qint[2], b: Qint[2]) -> Qint[4]:\n    return a ** b\n", [["a", "Qint2"], ["b", "Qint2"]], "Qint4"),
    ("bool_lt", "def f(a: bool, b: bool) -> bool:\n    return a < b\n", [["a", "bool"], ["b", "bool"]], "bool"),
    ("abs", "def f(a: Qint[2]) -> Qint[2]:\n    return abs(a)\n", [["a", "Qint2"]], "Qint2"),
    ("divmod", "def f(a: Qint[4]) -> Qint[4]:\n    return divmod(a, 2)[0]\n", [["a", "Qint4"]], "Qint4"),
    ("is", "def f(a: bool, b: bool) -> bool:\n    return a is b\n", [["a", "bool"], ["b", "bool"]], "bool"),
    ("in", "def f(a: Qint[2]) -> bool:\n    return a in [1, 2]\n", [["a", "Qint2"]], "bool"),
    ("augdiv", "def f(a: Qint[4]) -> Qint[4]:\n    a //= 2\n    return a\n", [["a", "Qint4"]], "Qint4"),
    ("kwarg", "def f(a: Qint[2], b: Qint[2]) -> Qint[2]:\n    return max(a, b, key=None)\n", [["a", "Qint2"], ["b", "Qint2"]], "Qint2"),
    ("list_neg_index", "def f(a: Qlist[Qint[2], 3]) -> Qint[2]:\n    return a[-1]\n", [["a", ["Qint2"] * 3]], "Qint2"),
    ("pass_body", "def f(a: Qint[2]) -> Qint[2]:\n    if a == 1:\n        pass\n    return a\n", [["a", "Qint2"]], "Qint2"),
    ("pow_mod", "def f(a: Qint[2]) -> Qint[4]:\n    return (a * 3) % 5\n", [["a", "Qint2"]], "Qint4"),
    ("ternary_int_cond", "def f(a: Qint[2], b: Qint[2]) -> Qint[2]:\n    return a if b else b\n", [["a", "Qint2"], ["b", "Qint2"]], "Qint2"),
]


def outside_programs(rng, n):
    """programs outside the supported subset: must be rejected, or agree with CPython on every defined input"""
    out = []
    for k in range(n):
        tag, src, args, ret = OUTSIDE_TEMPLATES[k % len(OUTSIDE_TEMPLATES)]
        if k >= len(OUTSIDE_TEMPLATES) and "Qlist" not in src:
            # vary widths / constants
            w = rng.choice([2, 3, 4])
            src = src.replace("Qint[4]", f"Qint[{w}]").replace("Qint[2]", f"Qint[{rng.choice([2, 3])}]")
            args = None
        out.append({"src": src, "args": args, "ret": ret, "feat": [f"outside:{tag}"], "tag": tag})
    res = []
    import re

    for c in out:
        if c["args"] is None:
            # re-derive descriptors from the source text
            sig = c["src"].split("\n")[0]
            m = re.match(r"def f\((.*)\) -> (.*):", sig)
            args = []
            for part in re.findall(r"(\w+): ([A-Za-z]+(?:\[[^\]]*\])?)", m.group(1)):
                args.append([part[0], _desc(part[1])])
            c["args"] = args
            c["ret"] = _desc(m.group(2))
        res.append(c)
    return res


def _desc(ann):
    import re

    ann = ann.strip()
    if ann == "bool":
        return "bool"
    m = re.match(r"Qint\[(\d+)\]", ann)
    if m:
        return f"Qint{m.group(1)}"
    m = re.match(r"Qlist\[(.*), (\d+)\]", ann)
    if m:
        return [_desc(m.group(1))] * int(m.group(2))
    raise ValueError(ann)


# ---------------------------------------------------------------- Qfixed / Qchar programs
FIXED_TYPES = [(1, 2), (1, 3), (2, 2), (2, 3), (1, 4), (2, 4), (3, 3)]


def fixed_char_programs(rng, n):
    """same-type fixed-point arithmetic/comparisons with representable constants, character comparisons, ord()"""
    out = []
    for k in range(n):
        if k % 3 != 2:
            i, f = rng.choice(FIXED_TYPES)
            t = f"Qfixed{i}_{f}"
            ann = f"Qfixed[{i}, {f}]"
            two = rng.random() < 0.6 and 2 * (i + f) <= 10

            def const():
                v = rng.randrange(1 << (i + f)) / (1 << f)
                return f"Qfixed{i}_{f}({v!r})"

            def term(d):
                r = rng.random()
                if d <= 0 or r < 0.35:
                    return rng.choice(["a", "b"] if two else ["a"]) if rng.random() < 0.8 else const()
                if r < 0.6:
                    return f"({term(d - 1)} + {term(d - 1)})"
                if r < 0.8:
                    return f"({term(d - 1)} - {term(d - 1)})"
                if r < 0.9:
                    return f"({term(d - 1)} * {rng.choice([0, 1, 2, 3])})"
                return f"({term(d - 1)} if {cond(d - 1)} else {term(d - 1)})"

            def cond(d):
                return f"({term(max(0, d))} {rng.choice(CMP)} {term(max(0, d))})"

            args = [["a", t]] + ([["b", t]] if two else [])
            if rng.random() < 0.15 and i >= 2:
                # int() / float() conversions between Qfixed[i,f] and Qint[i]
                fi = {2: 2, 3: 3, 4: 4}[i]
                if rng.random() < 0.5:
                    src = f"def f(a: {ann}, n: Qint[{i}]) -> Qint[{i}]:\n    return {rng.choice(['int(a)', 'int(a) + n', 'int(a + a) ^ n', '(int(a) if n[0] else n)'])}\n"
                    out.append({"src": src, "args": [["a", t], ["n", f"Qint{i}"]], "ret": f"Qint{i}", "feat": ["int_of_fixed"]})
                else:
                    tt = f"Qfixed{i}_{fi}"
                    src = f"def f(a: Qfixed[{i}, {fi}], n: Qint[{i}]) -> Qfixed[{i}, {fi}]:\n    return {rng.choice(['float(n)', 'float(n) + a', 'a - float(n)', '(float(n) if a > float(n) else a)'])}\n"
                    out.append({"src": src, "args": [["a", tt], ["n", f"Qint{i}"]], "ret": tt, "feat": ["float_of_int"]})
                continue
            extra = rng.random() < 0.3
            if extra:
                args.append(["c", "bool"])
            sig = ", ".join(f"{nm}: {ann if tt == t else 'bool'}" for nm, tt in args)
            body = []
            if rng.random() < 0.3:
                body.append(f"    v = {term(1)}")
            if rng.random() < 0.5:
                ret, e = "bool", cond(1) if not extra else f"({cond(1)} {rng.choice(['and', 'or', '^'])} c)"
                rann = "bool"
            else:
                ret, e, rann = t, term(2), ann
            if body:
                e = e.replace("a", "v", 1) if rng.random() < 0.5 and e.startswith("a") else e
            src = f"def f({sig}) -> {rann}:\n" + "".join(b + "\n" for b in body) + f"    return {e}\n"
            out.append({"src": src, "args": args, "ret": ret, "feat": ["fixed:" + t]})
        else:
            two = rng.random() < 0.4
            lit = lambda: repr(chr(rng.choice([97, 98, 122, 65, 48, 32, 126, 1, 3, 255 if False else 200])))  # noqa: E731
            forms = [f"(a == {lit()})", f"(a != {lit()})", f"(ord(a) == {rng.choice([0, 1, 3, 97, 100, 200, 255])})", f"(ord(a) != {rng.choice([2, 97, 128])})"]
            if two:
                forms += ["(a == b)", "(a != b)", f"((a == {lit()}) or (b == {lit()}))"]
            args = [["a", "Qchar"]] + ([["b", "Qchar"]] if two else [])
            sig = ", ".join(f"{nm}: Qchar" for nm, _ in args)
            r = rng.random()
            if r < 0.6:
                ret, e = "bool", rng.choice(forms) if rng.random() < 0.6 else f"({rng.choice(forms)} {rng.choice(['and', 'or', '^'])} {rng.choice(forms)})"
            elif r < 0.8:
                ret, e = "Qchar", rng.choice(["a", lit(), f"(a if {rng.choice(forms)} else {lit()})"] + (["(a if (a == b) else b)"] if two else []))
            else:
                ret, e = ["Qchar", "bool"], f"(a, {rng.choice(forms)})"
            src = f"def f({sig}) -> {codec.annotation(ret)}:\n    return {e}\n"
            out.append({"src": src, "args": args, "ret": ret, "feat": ["char"]})
    return out


def mixed_fixed_programs(rng, n):
    """fixed-point values of DIFFERENT (integer, fractional) sizes meeting in one operation: two typed arguments, bare float
    literals (multiples of 1/4, which the library's literal typing holds exactly), if-expressions and return coercions"""
    out = []
    small = [(i, f) for i, f in FIXED_TYPES if i + f <= 6]
    for k in range(n):
        (i1, f1), (i2, f2) = rng.sample(small, 2)
        t1, t2 = f"Qfixed{i1}_{f1}", f"Qfixed{i2}_{f2}"
        a1, a2 = f"Qfixed[{i1}, {f1}]", f"Qfixed[{i2}, {f2}]"
        lit = repr(rng.randrange(1, 1 << (i1 + 2)) / 4)
        ri, rf = rng.choice([(i, f) for i, f in FIXED_TYPES if i >= max(i1, i2) and f >= max(f1, f2)] or [(4, 6)])
        rt, ra = f"Qfixed{ri}_{rf}", f"Qfixed[{ri}, {rf}]"
        cmp_ = rng.choice(CMP)
        kind = k % 8
        if kind == 0:
            src, args, ret = f"def f(a: {a1}, b: {a2}) -> {ra}:\n    return a + b\n", [["a", t1], ["b", t2]], rt
        elif kind == 1:
            src, args, ret = f"def f(a: {a1}, b: {a2}) -> bool:\n    return a {cmp_} b\n", [["a", t1], ["b", t2]], "bool"
        elif kind == 2:
            src, args, ret = f"def f(a: {a1}) -> {a1}:\n    return a + {lit}\n", [["a", t1]], t1
        elif kind == 3:
            src, args, ret = f"def f(a: {a1}) -> bool:\n    return a {cmp_} {lit}\n", [["a", t1]], "bool"
        elif kind == 4:
            src, args, ret = f"def f(a: {a1}) -> {ra}:\n    return a\n", [["a", t1]], rt
        elif kind == 5:
            src, args, ret = f"def f(a: {a1}, b: {a2}, c: bool) -> {ra}:\n    return a if c else b\n", [["a", t1], ["b", t2], ["c", "bool"]], rt
        elif kind == 6:
            src, args, ret = f"def f(a: {a1}, b: {a2}) -> {ra}:\n    v = a - b if a > b else b - a\n    return v\n", [["a", t1], ["b", t2]], rt
        else:
            src, args, ret = f"def f(a: {a1}) -> {a1}:\n    return {lit} + a if a < {lit} else a\n", [["a", t1]], t1
        out.append({"src": src, "args": args, "ret": ret, "feat": ["mixed_fixed"], "tag": "mixed_fixed"})
    return out
