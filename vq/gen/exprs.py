"""Seeded generator of boolean definition lists (JSON s-expressions) + conversion to sympy.

expression  ::= name | true | false | ["not",e] | ["and",e,e,...] | ["or",...] | ["xor",...]
              | ["ite",c,t,f] | ["imp",a,b]
list        ::= [[name, expression], ...]   (intermediates first-use-after-definition, returns named _ret*)
"""
import itertools
import random

OPS = ["and", "or", "xor", "not", "ite", "imp"]


def to_sympy(j, evaluate=True):
    from sympy import Symbol
    from sympy.logic.boolalg import ITE, And, Implies, Not, Or, Xor, false, true

    def rec(x):
        if x is True:
            return true
        if x is False:
            return false
        if isinstance(x, str):
            return Symbol(x)
        op, args = x[0], [rec(a) for a in x[1:]]
        # unevaluated nodes over constants (e.g. ~True) are not something sympy's own routines handle
        # consistently; keep those evaluated
        ev = evaluate or any(a is true or a is false for a in args)
        if ev is not evaluate:
            return {"not": Not, "and": And, "or": Or, "xor": Xor, "ite": ITE, "imp": Implies}[op](*args)
        if op == "not":
            return Not(args[0]) if evaluate else Not(args[0], evaluate=False)
        if op == "and":
            return And(*args) if evaluate else And(*args, evaluate=False)
        if op == "or":
            return Or(*args) if evaluate else Or(*args, evaluate=False)
        if op == "xor":
            return Xor(*args) if evaluate else Xor(*args, evaluate=False)
        if op == "ite":
            return ITE(*args) if evaluate else ITE(*args, evaluate=False)
        if op == "imp":
            return Implies(*args) if evaluate else Implies(*args, evaluate=False)
        raise ValueError(op)

    return rec(j)


def list_to_sympy(lst, evaluate=True):
    from sympy import Symbol

    return [(Symbol(n), to_sympy(e, evaluate)) for n, e in lst]


def names_in(j, acc=None):
    if acc is None:
        acc = set()
    if isinstance(j, str):
        acc.add(j)
    elif isinstance(j, list):
        for a in j[1:]:
            names_in(a, acc)
    return acc


def rand_expr(rng, atoms, depth, ops=OPS, nary=4, p_leaf=0.25, p_const=0.03):
    if depth <= 0 or rng.random() < p_leaf:
        if rng.random() < p_const:
            return rng.random() < 0.5
        return rng.choice(atoms)
    op = rng.choice(ops)
    if op == "not":
        return ["not", rand_expr(rng, atoms, depth - 1, ops, nary, p_leaf, p_const)]
    if op == "ite":
        return ["ite"] + [rand_expr(rng, atoms, depth - 1, ops, nary, p_leaf, p_const) for _ in range(3)]
    if op == "imp":
        return ["imp"] + [rand_expr(rng, atoms, depth - 1, ops, nary, p_leaf, p_const) for _ in range(2)]
    k = 2 if rng.random() < 0.6 else rng.randint(2, nary)
    return [op] + [rand_expr(rng, atoms, depth - 1, ops, nary, p_leaf, p_const) for _ in range(k)]


def rand_list(rng, n_in=None, n_mid=None, n_ret=None, depth=3, ops=OPS, names="neutral", nary=4):
    n_in = n_in or rng.randint(2, 6)
    n_mid = rng.randint(0, 3) if n_mid is None else n_mid
    n_ret = n_ret or rng.randint(1, 3)
    inputs = [["a", "b", "c", "d", "e", "f", "g", "h"][i] for i in range(n_in)]
    if rng.random() < 0.3:
        inputs = [f"a.{i}" for i in range(n_in)]
    atoms = list(inputs)
    lst = []
    for k in range(n_mid):
        nm = f"t{k}" if names == "neutral" else f"x{k}"
        lst.append([nm, rand_expr(rng, atoms, rng.randint(1, depth), ops, nary)])
        if rng.random() < 0.8:
            atoms.append(nm)
            if rng.random() < 0.5:
                atoms.append(nm)  # make reuse likely
    rets = ["_ret"] if n_ret == 1 else [f"_ret.{i}" for i in range(n_ret)]
    mids = [x[0] for x in lst]
    interleave = len(rets) >= 2 and mids and rng.random() < 0.2
    for r in rets:
        lst.append([r, rand_expr(rng, atoms, rng.randint(1, depth), ops, nary, p_leaf=0.15)])
        if interleave and r != rets[-1]:
            # sequential semantics: an intermediate the return bit above may use is redefined before the next one
            nm = rng.choice(mids)
            lst.append([nm, rand_expr(rng, atoms, rng.randint(1, depth), ops, nary)])
            if nm not in atoms:
                atoms.append(nm)
    return {"inputs": inputs, "list": lst}


# ---- pattern-directed instances and near misses for the rewrite rules ----
def _lit(rng, atoms, sub_p=0.25):
    a = rng.choice(atoms)
    return a


def pattern_lists(rng, count):
    """Instances / near-misses of or2xor, or2and, remove_obvious, ITE/Implies removal, nested under
    each other operator."""
    out = []
    base = ["a", "b", "c", "d", "e"]

    def sub(depth=1):
        return rand_expr(rng, base, depth, ["and", "or", "xor", "not"], 3)

    def wrap(e):
        r = rng.random()
        x = rng.choice(base)
        if r < 0.3:
            return e
        if r < 0.45:
            return ["not", e]
        if r < 0.6:
            return ["and", e, x]
        if r < 0.75:
            return ["or", e, x]
        if r < 0.9:
            return ["xor", e, x]
        return ["ite", x, e, rng.choice(base)]

    off = rng.randrange(20) if count < 20 else 0
    for i in range(count):
        kind = (i + off) % 20
        k = rng.randint(2, 4)
        vs = rng.sample(base, k)
        terms = [v if rng.random() < 0.7 else sub(1) for v in vs]
        if kind == 0:  # or2xor exact shape, arity k; often with unequal arities (extra conjuncts on one side)
            left = list(terms)
            right = [["not", t] for t in terms]
            r = rng.random()
            others = [v for v in base if v not in vs] or base

            def extra():
                x = rng.choice(others)
                return rng.choice([x, ["not", x], ["or", x, rng.choice(base)], ["xor", x, rng.choice(base)]])

            if r < 0.35:
                right += [extra() for _ in range(rng.randint(1, 2))]
            elif r < 0.5:
                left += [extra() for _ in range(rng.randint(1, 2))]
            elif r < 0.6:
                left.append(extra())
                right.append(extra())
            if rng.random() < 0.3:
                left, right = right, left
            e = ["or", ["and"] + left, ["and"] + right]
        elif kind == 1:  # near miss: one literal not negated
            neg = [["not", t] for t in terms]
            j = rng.randrange(k)
            neg[j] = terms[j]
            e = ["or", ["and"] + terms, ["and"] + neg]
        elif kind == 2:  # near miss: different variable in 2nd conjunct
            neg = [["not", t] for t in terms]
            neg[rng.randrange(k)] = ["not", rng.choice(base)]
            e = ["or", ["and"] + terms, ["and"] + neg]
        elif kind == 3:  # n-ary or
            e = ["or"] + [sub(1) for _ in range(rng.randint(3, 5))]
        elif kind == 4:  # n-ary or hidden under a 2-ary or / and / not / xor
            inner = ["or"] + [rng.choice(base) if rng.random() < 0.6 else sub(1) for _ in range(rng.randint(3, 4))]
            e = rng.choice([["or", ["and", inner, rng.choice(base)], rng.choice(base)], ["and", inner, sub(1)], ["not", inner], ["xor", inner, rng.choice(base)],
                            ["or", ["not", ["and", inner, rng.choice(base)]], rng.choice(base)]])
        elif kind == 5:  # obvious and/or (needs evaluate=False to survive construction)
            x = rng.choice(base)
            e = rng.choice([["and", x, ["not", x]], ["or", x, ["not", x]], ["and", ["not", x], x], ["or", ["not", x], x], ["not", ["not", x]],
                            ["and", x, ["not", rng.choice(base)]], ["or", ["not", x], rng.choice(base)], ["and", x, ["not", x], rng.choice(base)]])
        elif kind == 6:  # ITE shapes
            e = ["ite", sub(1), sub(1), sub(1)]
            if rng.random() < 0.5:
                e = ["ite", ["not", rng.choice(base)], e, rng.choice(base)]
        elif kind == 7:  # Implies shapes
            e = ["imp", sub(1), sub(1)]
            if rng.random() < 0.5:
                e = ["imp", e, ["imp", rng.choice(base), rng.choice(base)]]
        elif kind == 8:  # xnor-shaped ITE as produced by comparators / if-expressions
            a, b = rng.sample(base, 2)
            e = ["ite", a, b, ["not", b]]
        elif kind == 9:  # adder carry shape
            a, b, c = rng.sample(base, 3)
            e = ["xor", ["and", a, b], ["and", ["xor", a, b], c]]
        elif kind == 10:  # or2xor whose conjunct literals are negated the other way round / swapped order
            a, b = terms[0], terms[1]
            e = rng.choice([["or", ["and", ["not", a], ["not", b]], ["and", a, b]], ["or", ["and", a, ["not", b]], ["and", ["not", a], b]],
                            ["or", ["and", b, a], ["and", ["not", a], ["not", b]]]])
        elif kind in (12, 13):  # a sub-term repeated under a top-level xor (cache / accumulator reuse)
            T = rng.choice([["and", vs[0], vs[1]], ["and", ["not", vs[0]], ["not", vs[1]]], ["and"] + [["not", v] for v in vs], ["or", vs[0], vs[1]], ["and", vs[0], sub(1)]])
            # the second occurrence either literally or as its De Morgan twin (which CSE does not share)
            def twin(t):
                if t[0] == "and" and all(isinstance(x, list) and x[0] == "not" for x in t[1:]) and rng.random() < 0.6:
                    return ["not", ["or"] + [x[1] for x in t[1:]]]
                return t
            o1, o2 = rng.choice(base), rng.choice(base)
            inner = rng.choice([["xor", o2, twin(T)], ["and", o2, twin(T)], ["or", o2, twin(T)], ["not", twin(T)]])
            e = ["xor", T, ["and", o1, inner]] if kind == 12 else ["xor", ["and", o1, inner], T, rng.choice(base)]
        elif kind == 14:  # the same compound term consumed plain and negated by siblings
            T = ["or", vs[0], vs[1]] if rng.random() < 0.5 else ["xor", vs[0], ["and", vs[1], rng.choice(base)]]
            x, y = rng.choice(base), rng.choice(base)
            e = rng.choice([["or", ["and", T, x], ["and", ["not", T], y]], ["xor", ["and", T, x], ["and", ["not", T], y]], ["ite", T, x, y], ["and", ["or", T, x], ["or", ["not", T], y]]])
        elif kind in (16, 17):  # if-else shaped two-operand Or of conjunctions, exact and near misses: the complement of a
            # conjunct of one side sits directly in the other side (mutually exclusive) or only NESTED in one of its operands
            x = vs[0]
            others = [v for v in base if v != x]
            p, q, r = rng.choice(others), rng.choice(others), rng.choice(others)
            nx = ["not", x]
            first, comp = (x, nx) if kind == 16 else (nx, x)
            nested = rng.choice([["xor", comp, r], ["or", comp, r], ["not", ["and", comp, r]], ["xor", ["and", comp, r], q], comp])
            left = ["and", first, p] if rng.random() < 0.8 else ["and", first, p, rng.choice(others)]
            right = ["and", q, nested]
            e = ["or", left, right] if rng.random() < 0.5 else ["or", right, left]
            if rng.random() < 0.3:
                e = ["xor", e, rng.choice(others)]
        elif kind in (18, 19):  # compositions of "obvious" two-operand nodes over a symbol and its own negation, under every
            # operator (a rule written for s & ~s / s | ~s must not fire on s ^ ~s or Implies(s, ~s) that take their place)
            def obvious():
                x = rng.choice(base)
                a, b = (x, ["not", x]) if rng.random() < 0.5 else (["not", x], x)
                return [rng.choice(["and", "or", "xor", "imp"]), a, b]

            parts = [obvious() for _ in range(rng.randint(2, 3))]
            if rng.random() < 0.4:
                parts[rng.randrange(len(parts))] = ["not", obvious()]
            e = [rng.choice(["and", "or"])] + parts
            if kind == 19:
                e = [rng.choice(["or", "and", "xor"]), rng.choice(base), e]
        else:  # mix
            e = ["or", ["and", sub(1), sub(1)], ["and", sub(1), sub(1)], ["not", sub(1)]]
        e = wrap(e)
        lst = []
        if rng.random() < 0.3:
            lst.append(["t0", sub(2)])
            e = ["xor", e, "t0"] if rng.random() < 0.5 else ["and", e, "t0"]
        if rng.random() < 0.3:
            lst.append(["_ret.0", e])
            lst.append(["_ret.1", wrap(sub(2))])
        else:
            lst.append(["_ret", e])
        out.append({"inputs": list(base), "list": lst, "pattern": kind})
    return out


def enum_small(vars_=("a", "b", "c"), ops=("and", "or", "xor")):
    """All trees of depth <= 2 over the given variables for one operator pair (thorough tier)."""
    lits = list(vars_) + [["not", v] for v in vars_]
    level1 = []
    for op in ops:
        for x, y in itertools.combinations(lits, 2):
            level1.append([op, x, y])
        for x, y, z in itertools.combinations(lits, 3):
            level1.append([op, x, y, z])
    for e in level1:
        yield e
    for op in ops:
        for x, y in itertools.combinations(level1[::3] + lits, 2):
            yield [op, x, y]
