"""Sparse state-vector simulator (basis index -> amplitude) for circuits whose support stays small:
Hadamard layers on a few qubits around classical reversible black boxes and phase gates. Up to 62 qubits."""
import cmath
import math

import numpy as np

from .revsim import gate_kind

SQ = 1 / math.sqrt(2)


class State:
    def __init__(self, nq, init=0):
        assert nq <= 62
        self.nq = nq
        self.idx = np.array([init], dtype=np.int64)
        self.amp = np.array([1.0 + 0j], dtype=complex)

    def _merge(self):
        u, inv = np.unique(self.idx, return_inverse=True)
        a = np.zeros(len(u), dtype=complex)
        np.add.at(a, inv, self.amp)
        keep = np.abs(a) > 1e-13
        self.idx, self.amp = u[keep], a[keep]

    def _ctrl_mask(self, ctrl):
        m = np.ones(len(self.idx), dtype=bool)
        for c in ctrl:
            m &= ((self.idx >> c) & 1).astype(bool)
        return m

    def x(self, q, ctrl=()):
        m = self._ctrl_mask(ctrl)
        self.idx = np.where(m, self.idx ^ (1 << q), self.idx)

    def phase(self, q, ph, ctrl=()):
        m = self._ctrl_mask(tuple(ctrl) + (q,))
        self.amp = np.where(m, self.amp * ph, self.amp)

    def mat(self, q, M, ctrl=()):
        m = self._ctrl_mask(ctrl)
        b = ((self.idx >> q) & 1).astype(bool)
        i0 = self.idx & ~(1 << q)
        i1 = self.idx | (1 << q)
        # controlled part: each basis state splits in two
        a0 = np.where(b, M[0, 1], M[0, 0]) * self.amp
        a1 = np.where(b, M[1, 1], M[1, 0]) * self.amp
        idx = np.concatenate([self.idx[~m], i0[m], i1[m]])
        amp = np.concatenate([self.amp[~m], a0[m], a1[m]])
        self.idx, self.amp = idx, amp
        self._merge()

    def swap(self, a, b):
        ba = (self.idx >> a) & 1
        bb = (self.idx >> b) & 1
        d = ba ^ bb
        self.idx = self.idx ^ ((d << a) | (d << b))


H = np.array([[SQ, SQ], [SQ, -SQ]], complex)
Y = np.array([[0, -1j], [1j, 0]], complex)


def run(gates, nq, init=0, max_support=1 << 20):
    st = State(nq, init)
    for g, w, p in gates:
        k = gate_kind(g)
        if k == "nop":
            continue
        cn = type(g).__name__
        if hasattr(g, "gate") and hasattr(g, "n_controls"):
            base = type(g.gate).__name__.lower()
            ctrl, t = tuple(w[:-1]), w[-1]
        else:
            base, ctrl, t = cn.lower(), (), w[0]
        if base == "swap":
            st.swap(w[0], w[1])
        elif base == "x":
            st.x(t, ctrl)
        elif base == "z":
            st.phase(t, -1, ctrl)
        elif base == "s":
            st.phase(t, 1j, ctrl)
        elif base == "t":
            st.phase(t, cmath.exp(1j * math.pi / 4), ctrl)
        elif base == "p":
            st.phase(t, cmath.exp(1j * float(p)), ctrl)
        elif base == "h":
            st.mat(t, H, ctrl)
        elif base == "y":
            st.mat(t, Y, ctrl)
        elif base == "i":
            pass
        else:
            raise ValueError(f"sparsevec: gate {cn}")
        if len(st.idx) > max_support:
            raise MemoryError("support too large")
    st._merge()
    return st


def marginal(st, qubits):
    """probability of each reading of `qubits` (bit j of the key = value of qubits[j])"""
    key = np.zeros(len(st.idx), dtype=np.int64)
    for j, q in enumerate(qubits):
        key |= ((st.idx >> q) & 1) << j
    pr = np.abs(st.amp) ** 2
    out = np.zeros(1 << len(qubits))
    np.add.at(out, key, pr)
    return out
