"""Parser for the QASM dialect printed by qlasskit's exporter (whitespace-separated operands, no ';' in gate bodies)."""
import re


class QasmError(Exception):
    pass


def parse(text):
    """-> dict(version, includes, qreg, name, params, body=[(gname, param, [operand names])], call=(name, [operands]))"""
    out = {"version": None, "includes": [], "qreg": None, "name": None, "params": None, "body": [], "call": None}
    lines = text.split("\n")
    i = 0
    n = len(lines)
    while i < n:
        ln = lines[i].strip()
        i += 1
        if not ln:
            continue
        m = re.fullmatch(r"OPENQASM (\d+\.\d+);", ln)
        if m:
            out["version"] = m.group(1)
            continue
        m = re.fullmatch(r'include "([^"]+)";', ln)
        if m:
            out["includes"].append(m.group(1))
            continue
        m = re.fullmatch(r"qreg (\w+)\[(\d+)\];", ln)
        if m:
            out["qreg"] = (m.group(1), int(m.group(2)))
            continue
        m = re.fullmatch(r"gate (\S+)\s*(.*)\{", ln)
        if m:
            if out["name"] is not None:
                raise QasmError("two gate definitions")
            out["name"] = m.group(1)
            out["params"] = m.group(2).split()
            while i < n:
                b = lines[i].strip()
                i += 1
                if b == "}":
                    break
                if not b:
                    continue
                mm = re.fullmatch(r"([a-z_]+)(?:\(([^)]*)\))?\s+(.*)", b)
                if not mm:
                    raise QasmError(f"bad gate line {b!r}")
                out["body"].append((mm.group(1), float(mm.group(2)) if mm.group(2) not in (None, "") else None, mm.group(3).split()))
            else:
                raise QasmError("unterminated gate body")
            continue
        m = re.fullmatch(r"(\S+) (.*);", ln)
        if m:
            if out["call"] is not None:
                raise QasmError("two invocations")
            out["call"] = (m.group(1), [x.strip() for x in m.group(2).split(",")])
            continue
        raise QasmError(f"unrecognised line {ln!r}")
    return out


def gate_of(gname):
    """'cccx' -> (n_controls, base)"""
    base = gname.lstrip("c")
    if base == "" and gname:
        raise QasmError(f"bad gate name {gname}")
    if gname == "swap":
        return 0, "swap"
    return len(gname) - len(base), base
