"""Input spaces and truth tables.

A truth table over a space of N input rows is a Python int with bit k = value on row k.
Exhaustive spaces enumerate all 2^n assignments (row k = assignment k, variable i = bit i of k);
sampled spaces carry an explicit list of assignments.
"""
import random


class Space:
    def __init__(self, nbits, rows=None):
        self.nbits = nbits
        if rows is None:
            self.rows = None
            self.N = 1 << nbits
        else:
            self.rows = list(rows)
            self.N = len(self.rows)
        self.ALL = (1 << self.N) - 1
        self._vars = {}

    @property
    def exhaustive(self):
        return self.rows is None

    def var(self, i):
        v = self._vars.get(i)
        if v is not None:
            return v
        if self.rows is None:
            assert i < self.nbits
            half = 1 << i
            period = half << 1
            block = ((1 << half) - 1) << half
            v = block * (self.ALL // ((1 << period) - 1))
        else:
            v = 0
            for k, r in enumerate(self.rows):
                if (r >> i) & 1:
                    v |= 1 << k
        self._vars[i] = v
        return v

    def row(self, k):
        return k if self.rows is None else self.rows[k]

    def iter_rows(self):
        return range(self.N) if self.rows is None else iter(self.rows)

    @staticmethod
    def first(x):
        """index of the lowest set bit"""
        return (x & -x).bit_length() - 1

    @staticmethod
    def popcount(x):
        return bin(x).count("1")


def make_space(nbits, limit=16, rng=None, samples=4096, boundaries=()):
    """Exhaustive when nbits <= limit, else a stratified sample (reported as such)."""
    if nbits <= limit:
        return Space(nbits)
    rng = rng or random.Random(0)
    rows = {0, (1 << nbits) - 1}
    for i in range(nbits):
        rows.add(1 << i)
        rows.add(((1 << nbits) - 1) ^ (1 << i))
    for b in boundaries:
        rows.add(b & ((1 << nbits) - 1))
    while len(rows) < samples:
        rows.add(rng.getrandbits(nbits))
    return Space(nbits, sorted(rows))
