"""numpy state-vector / unitary simulator for the library's full gate set.
Qubit i = bit i of the basis index (little endian)."""
import cmath
import math

import numpy as np

from .revsim import gate_kind

SQ = 1 / math.sqrt(2)
M1 = {
    "h": np.array([[SQ, SQ], [SQ, -SQ]], complex),
    "x": np.array([[0, 1], [1, 0]], complex),
    "y": np.array([[0, -1j], [1j, 0]], complex),
    "z": np.array([[1, 0], [0, -1]], complex),
    "s": np.array([[1, 0], [0, 1j]], complex),
    "t": np.array([[1, 0], [0, cmath.exp(1j * math.pi / 4)]], complex),
    "i": np.eye(2, dtype=complex),
}


class UnknownGate(Exception):
    pass


def _mat(name, p):
    if name == "p":
        return np.array([[1, 0], [0, cmath.exp(1j * float(p))]], complex)
    try:
        return M1[name]
    except KeyError:
        raise UnknownGate(name)


def apply1(psi, q, m, ctrl=()):
    """psi: (2**n, B); apply 2x2 m on qubit q where all ctrl bits are 1"""
    N = psi.shape[0]
    idx = np.arange(N)
    mask = ((idx >> q) & 1) == 0
    for c in ctrl:
        mask &= ((idx >> c) & 1).astype(bool)
    i0 = idx[mask]
    i1 = i0 | (1 << q)
    a = psi[i0].copy()
    b = psi[i1].copy()
    psi[i0] = m[0, 0] * a + m[0, 1] * b
    psi[i1] = m[1, 0] * a + m[1, 1] * b


def run(gates, psi):
    for g, w, p in gates:
        k = gate_kind(g)
        if k == "nop":
            continue
        cn = type(g).__name__
        if cn == "Swap" or k == "swap":
            a, b = w
            apply1(psi, b, M1["x"], (a,))
            apply1(psi, a, M1["x"], (b,))
            apply1(psi, b, M1["x"], (a,))
        elif hasattr(g, "gate") and hasattr(g, "n_controls"):
            base = type(g.gate).__name__.lower()
            apply1(psi, w[-1], _mat(base, p), tuple(w[:-1]))
        else:
            apply1(psi, w[0], _mat(cn.lower(), p))
    return psi


def unitary(gates, nq):
    N = 1 << nq
    return run(gates, np.eye(N, dtype=complex))


def statevector(gates, nq, init=0):
    N = 1 << nq
    psi = np.zeros((N, 1), complex)
    psi[init, 0] = 1
    return run(gates, psi)[:, 0]


def same_unitary(a, b, tol=1e-8):
    return a.shape == b.shape and np.allclose(a, b, atol=tol)
