"""Bit-parallel evaluator for sympy boolean trees (own traversal; no subs/simplify)."""
from sympy import Symbol
from sympy.logic.boolalg import (
    ITE,
    And,
    BooleanFalse,
    BooleanTrue,
    Implies,
    Not,
    Or,
    Xor,
    Equivalent,
    Nand,
    Nor,
    Xnor,
)


class FreeSymbol(Exception):
    pass


class Unsupported(Exception):
    pass


def ev(e, env, sp, memo=None):
    """env: name -> truth table int over sp"""
    if memo is None:
        memo = {}
    r = memo.get(e)
    if r is not None:
        return r
    ALL = sp.ALL
    if e is True or isinstance(e, BooleanTrue):
        r = ALL
    elif e is False or isinstance(e, BooleanFalse):
        r = 0
    elif isinstance(e, Symbol):
        try:
            r = env[e.name]
        except KeyError:
            raise FreeSymbol(e.name)
    elif isinstance(e, Not):
        r = ALL ^ ev(e.args[0], env, sp, memo)
    elif isinstance(e, And):
        r = ALL
        for a in e.args:
            r &= ev(a, env, sp, memo)
    elif isinstance(e, Or):
        r = 0
        for a in e.args:
            r |= ev(a, env, sp, memo)
    elif isinstance(e, Xor):
        r = 0
        for a in e.args:
            r ^= ev(a, env, sp, memo)
    elif isinstance(e, ITE):
        c = ev(e.args[0], env, sp, memo)
        r = (c & ev(e.args[1], env, sp, memo)) | ((ALL ^ c) & ev(e.args[2], env, sp, memo))
    elif isinstance(e, Implies):
        r = (ALL ^ ev(e.args[0], env, sp, memo)) | ev(e.args[1], env, sp, memo)
    elif isinstance(e, Equivalent):
        vs = [ev(a, env, sp, memo) for a in e.args]
        r = ALL
        for a in vs[1:]:
            r &= ALL ^ (vs[0] ^ a)
    elif isinstance(e, Nand):
        r = ALL
        for a in e.args:
            r &= ev(a, env, sp, memo)
        r ^= ALL
    elif isinstance(e, Nor):
        r = 0
        for a in e.args:
            r |= ev(a, env, sp, memo)
        r ^= ALL
    elif isinstance(e, Xnor):
        r = 0
        for a in e.args:
            r ^= ev(a, env, sp, memo)
        r ^= ALL
    else:
        raise Unsupported(f"{type(e).__name__}: {e}")
    memo[e] = r
    return r


def input_env(names, sp):
    return {nm: sp.var(i) for i, nm in enumerate(names)}


def eval_list(exprs, names, sp, extra=None):
    """Evaluate an ordered definition list; later definitions shadow earlier ones.
    Returns env (name -> table) including inputs. Raises FreeSymbol."""
    env = input_env(names, sp)
    if extra:
        env.update(extra)
    for s, e in exprs:
        env[s.name if hasattr(s, "name") else str(s)] = ev(e, env, sp, {})
    return env


def symbols_of(e, acc=None):
    if acc is None:
        acc = set()
    if isinstance(e, Symbol):
        acc.add(e.name)
    elif hasattr(e, "args"):
        for a in e.args:
            symbols_of(a, acc)
    return acc
