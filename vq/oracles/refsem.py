"""Reference semantics: the ORIGINAL source text executed by CPython on tracked values.

U(v, w): unsigned integer value v (exact, unbounded) with the static width w the typing discipline D
(DESIGN section 2) gives it; a run-state flag is raised when any value leaves [0, 2^w).
F(v, i, f): fixed point (Fraction).  C(ch): character.  bools, tuples: Python's own.
"""
import ast
import operator
from fractions import Fraction

from . import codec

SIZES = [2, 4, 6, 8, 12, 16]


class Undefined(Exception):
    """this input has no defined Python meaning (or none the reference models)"""


class Unsupported(Exception):
    """the reference does not model this construct: case is skipped, never judged"""


def const_w(c):
    for s in SIZES:
        if c < 2 ** s:
            return s
    raise Unsupported("constant too big")


def mul_w(n):
    for s in SIZES:
        if 2 * n <= s:
            return s
    return 16


class State:
    def __init__(self):
        self.ovf = False
        self.nonring = False
        self.minw = 99
        self.doubt = False  # static widths could not be established for this run
        self.mixed_fixed = False  # an operation / coercion between Qfixed values of different (integer, fractional) sizes happened


ST = State()


def reset():
    global ST
    ST = State()
    return ST


class U:
    __slots__ = ("v", "w")

    def __init__(s, v, w):
        s.v = v
        s.w = w
        if v < 0 or v >= (1 << w):
            ST.ovf = True
        if w < ST.minw:
            ST.minw = w

    @staticmethod
    def lift(x):
        if isinstance(x, U):
            return x
        if isinstance(x, bool):
            raise TypeError("bool used as int")
        if isinstance(x, int):
            if x < 0:
                ST.ovf = True
                return U(x, 2)
            return U(x, const_w(x))
        if isinstance(x, (F, float, Fraction)):
            raise Unsupported("int/fixed mixing")
        raise TypeError(f"not an int: {type(x).__name__}")

    def _b(s, o, f, name):
        o = U.lift(o)
        w = max(s.w, o.w)
        return U(f(s.v, o.v), w)

    def __add__(s, o):
        return s._b(o, operator.add, "add")

    def __radd__(s, o):
        return U.lift(o) + s

    def __sub__(s, o):
        return s._b(o, operator.sub, "sub")

    def __rsub__(s, o):
        return U.lift(o) - s

    def __and__(s, o):
        return s._b(o, operator.and_, "and")

    def __rand__(s, o):
        return U.lift(o) & s

    def __or__(s, o):
        return s._b(o, operator.or_, "or")

    def __ror__(s, o):
        return U.lift(o) | s

    def __xor__(s, o):
        return s._b(o, operator.xor, "xor")

    def __rxor__(s, o):
        return U.lift(o) ^ s

    def __mul__(s, o):
        o = U.lift(o)
        return U(s.v * o.v, mul_w(max(s.w, o.w)))

    def __rmul__(s, o):
        return U.lift(o) * s

    def __pow__(s, n):
        if isinstance(n, U):
            raise Unsupported("variable exponent")
        if n == 0:
            return U(1, 2)
        r = s
        for _ in range(n - 1):
            r = r * s
        return r

    def __mod__(s, o):
        ST.nonring = True
        o = U.lift(o)
        if o.v == 0:
            raise Undefined("mod 0")
        return U(s.v % o.v, max(s.w, o.w))

    def __rmod__(s, o):
        return U.lift(o) % s

    def __floordiv__(s, o):
        raise Unsupported("floordiv")

    __truediv__ = __floordiv__

    def __invert__(s):
        # ~x at width w for in-range x; Python's -1-x otherwise (agrees modulo 2^w)
        return U(((1 << s.w) - 1) ^ s.v if 0 <= s.v < (1 << s.w) else -1 - s.v, s.w)

    def __neg__(s):
        ST.ovf = True
        return U(-s.v, s.w)

    def __lshift__(s, n):
        if isinstance(n, U):
            raise Unsupported("variable shift")
        return U(s.v << n, s.w)

    def __rshift__(s, n):
        if isinstance(n, U):
            raise Unsupported("variable shift")
        ST.nonring = True
        return U(s.v >> n, s.w)

    def __getitem__(s, i):
        ST.nonring = True
        if isinstance(i, U):
            raise Unsupported("variable bit index")
        if i >= s.w or i < 0:
            raise IndexError("bit index")
        return bool((s.v >> i) & 1)

    def __index__(s):
        ST.nonring = True
        return s.v

    def _c(s, o):
        ST.nonring = True
        if isinstance(o, C):
            raise Unsupported("int/char compare")
        return U.lift(o).v

    def __eq__(s, o):
        return s.v == s._c(o)

    def __ne__(s, o):
        return s.v != s._c(o)

    def __lt__(s, o):
        return s.v < s._c(o)

    def __le__(s, o):
        return s.v <= s._c(o)

    def __gt__(s, o):
        return s.v > s._c(o)

    def __ge__(s, o):
        return s.v >= s._c(o)

    __hash__ = None

    def __bool__(s):
        raise TypeError("int used as bool")

    def __repr__(s):
        return f"U({s.v},{s.w})"


class F:
    """fixed point value of type Qfixed<i>_<f>"""

    __slots__ = ("v", "i", "f")

    def __init__(s, v, i, f):
        s.v = Fraction(v)
        s.i = i
        s.f = f
        ST.nonring = True
        if s.v < 0 or s.v >= (1 << i) or (s.v * (1 << f)).denominator != 1:
            ST.ovf = True

    @staticmethod
    def _join(a, b):
        """static type of a binary operation: both operands on a common grid, binary points aligned"""
        if not isinstance(b, F):
            raise Unsupported("fixed mixed with non-fixed")
        if (a.i, a.f) != (b.i, b.f):
            ST.mixed_fixed = True
        return max(a.i, b.i), max(a.f, b.f)

    def __add__(s, o):
        i, f = F._join(s, o)
        return F(s.v + o.v, i, f)

    def __sub__(s, o):
        i, f = F._join(s, o)
        return F(s.v - o.v, i, f)

    def __mul__(s, o):
        if isinstance(o, U):
            o = o.v  # the generator only multiplies by literals
        if isinstance(o, bool) or not isinstance(o, int):
            raise Unsupported("fixed mul")
        return F(s.v * o, s.i, s.f)

    __rmul__ = __mul__

    def _c(s, o):
        F._join(s, o)
        return o.v

    def __eq__(s, o):
        return s.v == s._c(o)

    def __ne__(s, o):
        return s.v != s._c(o)

    def __lt__(s, o):
        return s.v < s._c(o)

    def __le__(s, o):
        return s.v <= s._c(o)

    def __gt__(s, o):
        return s.v > s._c(o)

    def __ge__(s, o):
        return s.v >= s._c(o)

    __hash__ = None

    def __bool__(s):
        raise TypeError("fixed used as bool")

    def __repr__(s):
        return f"F({s.v},{s.i},{s.f})"


class C:
    __slots__ = ("ch",)

    def __init__(s, ch):
        s.ch = ch
        ST.nonring = True

    def __eq__(s, o):
        if isinstance(o, C):
            return s.ch == o.ch
        if isinstance(o, str):
            return s.ch == o
        raise Unsupported("char compared with non-char")

    def __ne__(s, o):
        return not s.__eq__(o)

    __hash__ = None

    def __bool__(s):
        raise TypeError("char used as bool")

    def __repr__(s):
        return f"C({s.ch!r})"


# ---------------------------------------------------------------- source transformation
_FOLD_BIN = {
    ast.Add: operator.add, ast.Sub: operator.sub, ast.Mult: operator.mul, ast.FloorDiv: operator.floordiv,
    ast.Mod: operator.mod, ast.Pow: operator.pow, ast.LShift: operator.lshift, ast.RShift: operator.rshift,
    ast.BitOr: operator.or_, ast.BitXor: operator.xor, ast.BitAnd: operator.and_,
}
_FOLD_UN = {ast.UAdd: operator.pos, ast.USub: operator.neg, ast.Invert: operator.invert, ast.Not: operator.not_}
_FOLD_CMP = {ast.Eq: operator.eq, ast.NotEq: operator.ne, ast.Lt: operator.lt, ast.LtE: operator.le, ast.Gt: operator.gt, ast.GtE: operator.ge}


def _isnum(n):
    return isinstance(n, ast.Constant) and type(n.value) in (int, bool, float)


class Fold(ast.NodeTransformer):
    """Python's own meaning of literal-only sub-expressions (constants carry no width)."""

    def visit_BinOp(self, node):
        self.generic_visit(node)
        if _isnum(node.left) and _isnum(node.right) and type(node.op) in _FOLD_BIN:
            try:
                return ast.copy_location(ast.Constant(_FOLD_BIN[type(node.op)](node.left.value, node.right.value)), node)
            except Exception:
                return node
        return node

    def visit_UnaryOp(self, node):
        self.generic_visit(node)
        if _isnum(node.operand) and type(node.op) in _FOLD_UN:
            return ast.copy_location(ast.Constant(_FOLD_UN[type(node.op)](node.operand.value)), node)
        return node

    def visit_Compare(self, node):
        self.generic_visit(node)
        if len(node.ops) == 1 and _isnum(node.left) and _isnum(node.comparators[0]) and type(node.ops[0]) in _FOLD_CMP:
            return ast.copy_location(ast.Constant(_FOLD_CMP[type(node.ops[0])](node.left.value, node.comparators[0].value)), node)
        return node

    def visit_IfExp(self, node):
        self.generic_visit(node)
        if isinstance(node.test, ast.Constant):
            return node.body if node.test.value else node.orelse
        return node

    _BUILTINS = {"abs": abs, "len": len, "min": min, "max": max, "sum": sum, "any": any, "all": all}

    def visit_Call(self, node):
        # a builtin applied to literals only is a literal (Python's own value; constants carry no width)
        self.generic_visit(node)
        if isinstance(node.func, ast.Name) and node.func.id in self._BUILTINS and not node.keywords:
            vals = []
            for a in node.args:
                if _isnum(a):
                    vals.append(a.value)
                elif isinstance(a, (ast.Tuple, ast.List)) and all(_isnum(e) for e in a.elts):
                    vals.append([e.value for e in a.elts])
                else:
                    return node
            try:
                return ast.copy_location(ast.Constant(self._BUILTINS[node.func.id](*vals)), node)
            except Exception:
                return node
        return node


class Prep(ast.NodeTransformer):
    """strip annotations/decorators; wrap int/float/char literals in value positions"""

    def visit_FunctionDef(self, node):
        for a in node.args.args:
            a.annotation = None
        node.returns = None
        node.decorator_list = []
        body = []
        for b in node.body:
            r = self.visit(b)
            if isinstance(r, list):
                body.extend(r)
            elif r is not None:
                body.append(r)
        node.body = body
        return node

    def visit_AnnAssign(self, node):
        if node.value is None:
            return ast.copy_location(ast.Pass(), node)
        return ast.copy_location(ast.Assign(targets=[node.target], value=self.visit(node.value)), node)

    def visit_Subscript(self, node):
        node.value = self.visit(node.value)
        if not isinstance(node.slice, ast.Constant):
            node.slice = self.visit(node.slice)
            if isinstance(node.ctx, ast.Load):
                return ast.copy_location(ast.Call(func=ast.Name(id="_idx", ctx=ast.Load()), args=[node.value, node.slice], keywords=[]), node)
        return node

    def visit_IfExp(self, node):
        self.generic_visit(node)
        lam = lambda e: ast.Lambda(args=ast.arguments(posonlyargs=[], args=[], kwonlyargs=[], kw_defaults=[], defaults=[]), body=e)  # noqa: E731
        return ast.copy_location(ast.Call(func=ast.Name(id="_ite", ctx=ast.Load()), args=[node.test, lam(node.body), lam(node.orelse)], keywords=[]), node)

    def visit_If(self, node):
        simple = all(
            (isinstance(b, ast.Assign) and len(b.targets) == 1 and isinstance(b.targets[0], ast.Name)) or (isinstance(b, ast.AugAssign) and isinstance(b.target, ast.Name))
            for b in node.body + node.orelse
        )
        if not simple:
            self.generic_visit(node)
            d = ast.Expr(ast.Call(func=ast.Name(id="_doubt", ctx=ast.Load()), args=[], keywords=[]))
            return [ast.copy_location(d, node), node]
        self._ifn = getattr(self, "_ifn", 0) + 1
        cname = f"_ifc{self._ifn}"
        lam = lambda e: ast.Lambda(args=ast.arguments(posonlyargs=[], args=[], kwonlyargs=[], kw_defaults=[], defaults=[]), body=e)  # noqa: E731
        out = [ast.Assign(targets=[ast.Name(id=cname, ctx=ast.Store())], value=self.visit(node.test))]
        for branch, pos in ((node.body, True), (node.orelse, False)):
            for b in branch:
                if isinstance(b, ast.AugAssign):
                    tgt = b.target.id
                    val = ast.BinOp(left=ast.Name(id=tgt, ctx=ast.Load()), op=b.op, right=b.value)
                else:
                    tgt = b.targets[0].id
                    val = b.value
                val = self.visit(val)
                keep = ast.Name(id=tgt, ctx=ast.Load())
                a = [lam(val), lam(keep)] if pos else [lam(keep), lam(val)]
                out.append(ast.Assign(targets=[ast.Name(id=tgt, ctx=ast.Store())],
                                      value=ast.Call(func=ast.Name(id="_ite", ctx=ast.Load()), args=[ast.Name(id=cname, ctx=ast.Load())] + a, keywords=[])))
        return [ast.copy_location(x, node) for x in out]

    def visit_For(self, node):
        """inside the unrolled body the loop variable is a literal; AFTER the loop it is an ordinary variable that was
        assigned that literal (typed by value), not a literal any more"""
        self.generic_visit(node)
        if not isinstance(node.target, ast.Name):
            return node
        nm = node.target.id
        post = ast.Try(
            body=[ast.Assign(targets=[ast.Name(id=nm, ctx=ast.Store())], value=ast.Call(func=ast.Name(id="_postloop", ctx=ast.Load()), args=[ast.Name(id=nm, ctx=ast.Load())], keywords=[]))],
            handlers=[ast.ExceptHandler(type=ast.Name(id="NameError", ctx=ast.Load()), name=None, body=[ast.Pass()])], orelse=[], finalbody=[])
        return [node, ast.copy_location(post, node)]

    def visit_Call(self, node):
        if isinstance(node.func, ast.Name) and (node.func.id == "range" or node.func.id.startswith("Qint") or node.func.id.startswith("Qfixed") or node.func.id == "Qchar"):
            return node
        node.args = [self.visit(a) for a in node.args]
        return node

    def visit_BinOp(self, node):
        node.left = self.visit(node.left)
        if isinstance(node.op, (ast.LShift, ast.RShift, ast.Pow)) and isinstance(node.right, ast.Constant):
            return node
        node.right = self.visit(node.right)
        return node

    def visit_Constant(self, node):
        if type(node.value) is int:
            return ast.copy_location(ast.Call(func=ast.Name(id="_K", ctx=ast.Load()), args=[ast.Constant(node.value)], keywords=[]), node)
        if type(node.value) is float:
            return ast.copy_location(ast.Call(func=ast.Name(id="_KF", ctx=ast.Load()), args=[ast.Constant(node.value)], keywords=[]), node)
        if type(node.value) is str and len(node.value) == 1:
            return ast.copy_location(ast.Call(func=ast.Name(id="_KC", ctx=ast.Load()), args=[ast.Constant(node.value)], keywords=[]), node)
        return node


def _K(c):
    if c < 0:
        ST.ovf = True
        return U(c, 2)
    return U(c, const_w(c))


def _KF(c):
    """a float literal: its Python value, on the smallest grid that holds it.  The library types float literals by
    approximation (first shipped type within 0.05 of the value); literals with at most four fractional bits below 16 are exact in
    the type it picks, the others are outside what the reference judges"""
    v = Fraction(c)
    if v < 0 or v >= 16 or (v * 16).denominator != 1:
        raise Unsupported("float literal the library approximates")
    i = max(1, int(v).bit_length())
    f = 2
    while (v * (1 << f)).denominator != 1:
        f += 1
    return F(v, i, f)


def _postloop(v):
    if isinstance(v, int) and not isinstance(v, bool):
        return _K(v)
    return v


def _KC(c):
    return C(c)


def _widen(sel, others):
    """static typing: an if-expression / min / max / variable index has the widest operand's width"""
    if isinstance(sel, F):
        i, f = sel.i, sel.f
        for o in others:
            if isinstance(o, F):
                if (o.i, o.f) != (sel.i, sel.f):
                    ST.mixed_fixed = True
                i, f = max(i, o.i), max(f, o.f)
        if (i, f) != (sel.i, sel.f):
            keep = ST.ovf
            sel = F(sel.v, i, f)
            ST.ovf = keep
        return sel
    if isinstance(sel, U):
        w = sel.w
        for o in others:
            if isinstance(o, U) and o.w > w:
                w = o.w
        if w != sel.w:
            keep = (ST.ovf, ST.minw)
            sel = U(sel.v, w)
            ST.ovf, ST.minw = keep
    return sel


def _shadow(fn):
    """evaluate a branch that Python does not take, only to learn its static width"""
    keep = (ST.ovf, ST.nonring, ST.minw)
    try:
        return fn()
    except Unsupported:
        raise
    except Exception:
        ST.doubt = True
        return None
    finally:
        ST.ovf, ST.nonring, ST.minw = keep


def _ite(c, ft, ff):
    if not isinstance(c, bool):
        raise TypeError("condition is not a bool")
    if c:
        sel, other = ft(), _shadow(ff)
    else:
        other, sel = _shadow(ft), ff()
    return _widen(sel, [other])


def _idx(v, i):
    if isinstance(v, U):
        raise Unsupported("variable bit index")
    if isinstance(i, U):
        ST.nonring = True
        i = i.v
    if isinstance(i, bool) or not isinstance(i, int):
        raise TypeError("index")
    if i < 0 or i >= len(v):
        raise IndexError("index out of range")
    return _widen(v[i], list(v))


def _doubt():
    ST.doubt = True


def _sum(xs):
    it = list(xs)
    if not it:
        raise Undefined("sum of empty")
    r = it[-1]
    for x in reversed(it[:-1]):
        r = x + r
    return r


def _max(*a):
    if len(a) == 1:
        a = list(a[0])
    r = a[0]
    for x in a[1:]:
        if x > r:
            r = x
    return _widen(r, list(a))


def _min(*a):
    if len(a) == 1:
        a = list(a[0])
    r = a[0]
    for x in a[1:]:
        if x < r:
            r = x
    return _widen(r, list(a))


def _all(xs):
    xs = list(xs)
    for x in xs:
        if not isinstance(x, bool):
            raise TypeError("all() of non-bool")
    return all(xs)


def _any(xs):
    xs = list(xs)
    for x in xs:
        if not isinstance(x, bool):
            raise TypeError("any() of non-bool")
    return any(xs)


_FLOAT_OF_INT = {1: 2, 2: 2, 3: 3, 4: 4}  # first shipped Qfixed type with that many integer bits


def _int(x):
    if isinstance(x, U):
        return x
    if isinstance(x, F):
        if x.i < 2:
            raise Unsupported("int() of a fixed type with one integer bit")
        ST.nonring = True
        return U(int(x.v), x.i)
    raise TypeError("int() of non-number")


def _float(x):
    if isinstance(x, F):
        return x
    if isinstance(x, U):
        if x.w not in _FLOAT_OF_INT:
            raise Unsupported("float() of a wide int")
        return F(x.v, x.w, _FLOAT_OF_INT[x.w])
    raise TypeError("float() of non-number")


def _ord(x):
    if isinstance(x, C):
        return U(ord(x.ch), 8)
    raise Unsupported("ord")


def _qfixed(i, f):
    def mk(c):
        v = Fraction(c)
        if (v * (1 << f)).denominator != 1 or v < 0 or v >= (1 << i):
            raise Unsupported("fixed constant not representable")
        return F(v, i, f)

    return mk


def _chr(x):
    raise Unsupported("chr")


def _qint(w):
    return lambda c: U(c % (1 << w), w)


def make_ref(src, extra=None, fname=None):
    """compile `src` (one top-level def, possibly with inner defs) into a callable on tracked values"""
    tree = ast.parse(src)
    tree = Fold().visit(tree)
    tree = Prep().visit(tree)
    ast.fix_missing_locations(tree)
    ns = {
        "_K": _K, "_KF": _KF, "_KC": _KC, "_ite": _ite, "_idx": _idx, "_doubt": _doubt, "sum": _sum, "max": _max, "min": _min, "all": _all, "any": _any,
        "_postloop": _postloop, "int": _int, "float": _float, "ord": _ord, "chr": _chr, "print": lambda *a, **k: None,
        "True": True, "False": False,
    }
    for w in (2, 3, 4, 5, 6, 7, 8, 12, 16):
        ns[f"Qint{w}"] = _qint(w)
    for i, f in ((1, 2), (1, 3), (1, 4), (1, 6), (2, 2), (2, 3), (2, 4), (2, 6), (3, 3), (3, 4), (3, 6), (4, 4), (4, 6)):
        ns[f"Qfixed{i}_{f}"] = _qfixed(i, f)
    if extra:
        ns.update(extra)
    exec(compile(tree, "<ref>", "exec"), ns)
    fn = [n for n in tree.body if isinstance(n, ast.FunctionDef)]
    return ns[fname or fn[-1].name]


def lift(t, v):
    """python value decoded by codec -> tracked value"""
    if isinstance(t, list):
        return tuple(lift(x, y) for x, y in zip(t, v))
    if t == "bool":
        return bool(v)
    if t.startswith("Qint"):
        return U(v, int(t[4:]))
    if t == "Qchar":
        return C(v)
    i, f = codec.fixed_if(t)
    return F(v, i, f)


def lower(t, r):
    """tracked result -> (python value for codec.encode or None, low-bit info)
    returns list of per-leaf (descriptor, value, in_range)"""
    if isinstance(t, list):
        if not isinstance(r, (tuple, list)) or len(r) != len(t):
            raise TypeError("return shape")
        out = []
        for x, y in zip(t, r):
            out += lower(x, y)
        return out
    if t == "bool":
        if not isinstance(r, bool):
            raise TypeError("return type: expected bool")
        return [(t, r)]
    if t.startswith("Qint"):
        if isinstance(r, bool):
            raise TypeError("return type: bool for int")
        if isinstance(r, int):
            r = U.lift(r)
        if not isinstance(r, U):
            raise TypeError("return type: expected int")
        return [(t, r)]
    if t == "Qchar":
        if isinstance(r, str) and len(r) == 1:
            r = C(r)
        if not isinstance(r, C):
            raise TypeError("return type: expected char")
        return [(t, r)]
    if not isinstance(r, F):
        raise TypeError("return type: expected fixed")
    return [(t, r)]


def judge(ret_t, result, st):
    """-> list of (bit_value, required) per flattened return bit, or raises Undefined.
    required=False marks bits that wrap-around does not determine (not judged)."""
    leaves = lower(ret_t, result)
    bits = []
    flagged = st.ovf
    for t, r in leaves:
        if t == "bool":
            if flagged and st.nonring:
                bits.append((int(r), False))
            else:
                bits.append((int(r), True))
        elif t.startswith("Qint"):
            w = int(t[4:])
            inr = 0 <= r.v < (1 << w)
            if not flagged and inr:
                bits += [((r.v >> k) & 1, True) for k in range(w)]
            elif st.nonring:
                bits += [(0, False)] * w
            else:
                k0 = min(st.minw, w, r.w)
                bits += [((r.v >> k) & 1, k < k0) for k in range(w)]
        elif t == "Qchar":
            o = ord(r.ch)
            bits += [((o >> k) & 1, not flagged) for k in range(8)]
        else:
            i, f = codec.fixed_if(t)
            if (r.i, r.f) != (i, f):
                st.mixed_fixed = True
            e = codec.encode(t, r.v) if 0 <= r.v < (1 << i) and (r.v * (1 << f)).denominator == 1 else None
            if e is None or flagged:
                bits += [(0, False)] * (i + f)
            else:
                bits += [(b, True) for b in e]
    return bits
