"""Independent model of the documented encodings.

type descriptor: "bool" | "Qint<w>" | "Qfixed<i>_<f>" | "Qchar" | [descriptor, ...]  (tuple; Qlist/Qmatrix are nested tuples)
bit order: tuple-flattened, Qint/Qchar LSB first, Qfixed integer bits LSB first then fractional bits MSB first.
"""
from fractions import Fraction


def size(t):
    if isinstance(t, list):
        return sum(size(x) for x in t)
    if t == "bool":
        return 1
    if t == "Qchar":
        return 8
    if t.startswith("Qint"):
        return int(t[4:])
    i, f = t[6:].split("_")
    return int(i) + int(f)


def fixed_if(t):
    i, f = t[6:].split("_")
    return int(i), int(f)


def decode(t, bits):
    """bits: list of 0/1 (flattened) -> python value (bool, int, Fraction, str, tuple)"""
    if isinstance(t, list):
        out, p = [], 0
        for x in t:
            n = size(x)
            out.append(decode(x, bits[p:p + n]))
            p += n
        return tuple(out)
    if t == "bool":
        return bool(bits[0])
    if t.startswith("Qint"):
        return sum((1 << k) for k, b in enumerate(bits) if b)
    if t == "Qchar":
        return chr(sum((1 << k) for k, b in enumerate(bits) if b))
    i, f = fixed_if(t)
    v = Fraction(sum((1 << k) for k, b in enumerate(bits[:i]) if b))
    for k, b in enumerate(bits[i:]):
        if b:
            v += Fraction(1, 1 << (k + 1))
    return v


def encode(t, v):
    """python value -> list of 0/1, or None when the value is not representable in t"""
    if isinstance(t, list):
        if not isinstance(v, (tuple, list)) or len(v) != len(t):
            return None
        out = []
        for x, y in zip(t, v):
            e = encode(x, y)
            if e is None:
                return None
            out += e
        return out
    if t == "bool":
        if not isinstance(v, bool):
            return None
        return [1 if v else 0]
    if t.startswith("Qint"):
        w = int(t[4:])
        if isinstance(v, bool) or not isinstance(v, int) or v < 0 or v >= (1 << w):
            return None
        return [(v >> k) & 1 for k in range(w)]
    if t == "Qchar":
        if not isinstance(v, str) or len(v) != 1 or ord(v) > 255:
            return None
        return [(ord(v) >> k) & 1 for k in range(8)]
    i, f = fixed_if(t)
    v = Fraction(v)
    if v < 0 or v >= (1 << i):
        return None
    ip = int(v)
    fr = v - ip
    num = fr * (1 << f)
    if num.denominator != 1:
        return None
    num = int(num)
    return [(ip >> k) & 1 for k in range(i)] + [(num >> (f - 1 - k)) & 1 for k in range(f)]


def annotation(t, style=0):
    """source-level annotation for a descriptor"""
    if isinstance(t, list):
        if style and len(t) > 0 and all(x == t[0] for x in t):
            if isinstance(t[0], list) and all(y == t[0][0] for y in t[0]) and not isinstance(t[0][0], list):
                return f"Qmatrix[{annotation(t[0][0])}, {len(t)}, {len(t[0])}]"
            if not isinstance(t[0], list):
                return f"Qlist[{annotation(t[0])}, {len(t)}]"
        return "Tuple[" + ", ".join(annotation(x, style) for x in t) + "]"
    if t == "bool" or t == "Qchar":
        return t
    if t.startswith("Qint"):
        return f"Qint[{t[4:]}]" if style != 2 else t
    i, f = fixed_if(t)
    return f"Qfixed[{i}, {f}]"


def from_real_type(rt):
    """descriptor of a qlasskit type object (reads __name__/get_args only)"""
    from typing import get_args

    if rt is bool:
        return "bool"
    a = get_args(rt)
    if a:
        return [from_real_type(x) for x in a]
    return rt.__name__


def bit_names(base, t):
    if isinstance(t, list):
        out = []
        for k, x in enumerate(t):
            out += bit_names(f"{base}.{k}", x)
        return out
    if t == "bool":
        return [base]
    return [f"{base}.{k}" for k in range(size(t))]
