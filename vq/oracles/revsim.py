"""Bit-parallel simulator for classical reversible circuits (X, CX, CCX, MCX, MCtrl(X)).

State: one truth-table int per qubit over a Space.  Gates are recognised by class *name* and by
their (controls..., target) wire list; nothing of the repository's simulator is used.
"""


class NonClassical(Exception):
    pass


def gate_kind(g):
    """-> 'nop' | 'x' (controlled X with len(w)-1 controls) | other name"""
    cn = type(g).__name__
    if cn in ("Barrier", "NopGate"):
        return "nop"
    mro = [c.__name__ for c in type(g).__mro__]
    if "NopGate" in mro:
        return "nop"
    if cn == "X":
        return "x"
    if cn in ("CX", "CCX", "MCX"):
        return "x"
    if cn == "MCtrl":
        return "x" if type(g.gate).__name__ == "X" else "c" + type(g.gate).__name__.lower()
    if "QControlledGate" in mro:
        return "x" if type(g.gate).__name__ == "X" else "c" + type(g.gate).__name__.lower()
    return cn.lower()


def is_classical(g):
    return gate_kind(g) in ("nop", "x")


def initial_state(nq, nin, sp, preset=None):
    st = [sp.var(i) if i < nin else 0 for i in range(nq)]
    if preset:
        for q, v in preset.items():
            st[q] = v
    return st


def run(gates, st, sp, trace=None):
    """Apply gates in place on st (list of ints).  trace: optional list receiving
    (index, target, control_conjunction) per non-nop gate."""
    ALL = sp.ALL
    for i, (g, w, p) in enumerate(gates):
        k = gate_kind(g)
        if k == "nop":
            continue
        if k != "x":
            raise NonClassical(f"gate {i}: {g}")
        c = ALL
        for q in w[:-1]:
            c &= st[q]
        st[w[-1]] ^= c
        if trace is not None:
            trace.append((i, w[-1], c))
    return st
