"""Parser + evaluator for boolean expressions as printed by sympy's str(): ~ & ^ | ITE() Implies() True False,
symbols with dots (a.0).  Precedence as printed: ~ > & > ^ > |."""
import re

TOK = re.compile(r"\s*(ITE|Implies|True|False|[A-Za-z_][A-Za-z_0-9\.]*|[~&|^(),])")


class ParseError(Exception):
    pass


def tokenize(s):
    out, i = [], 0
    s = s.strip()
    while i < len(s):
        m = TOK.match(s, i)
        if not m:
            raise ParseError(f"bad token at {s[i:i + 20]!r}")
        out.append(m.group(1))
        i = m.end()
    return out


def parse(s):
    toks = tokenize(s)
    pos = [0]

    def peek():
        return toks[pos[0]] if pos[0] < len(toks) else None

    def eat(t=None):
        x = peek()
        if x is None or (t is not None and x != t):
            raise ParseError(f"expected {t}, got {x}")
        pos[0] += 1
        return x

    def p_or():
        a = [p_xor()]
        while peek() == "|":
            eat()
            a.append(p_xor())
        return a[0] if len(a) == 1 else ["or"] + a

    def p_xor():
        a = [p_and()]
        while peek() == "^":
            eat()
            a.append(p_and())
        return a[0] if len(a) == 1 else ["xor"] + a

    def p_and():
        a = [p_not()]
        while peek() == "&":
            eat()
            a.append(p_not())
        return a[0] if len(a) == 1 else ["and"] + a

    def p_not():
        if peek() == "~":
            eat()
            return ["not", p_not()]
        return p_atom()

    def p_atom():
        t = eat()
        if t == "(":
            e = p_or()
            eat(")")
            return e
        if t == "True":
            return True
        if t == "False":
            return False
        if t in ("ITE", "Implies"):
            eat("(")
            args = [p_or()]
            while peek() == ",":
                eat()
                args.append(p_or())
            eat(")")
            return ["ite" if t == "ITE" else "imp"] + args
        if re.fullmatch(r"[A-Za-z_][A-Za-z_0-9\.]*", t):
            return t
        raise ParseError(f"unexpected {t}")

    e = p_or()
    if pos[0] != len(toks):
        raise ParseError(f"trailing tokens {toks[pos[0]:]}")
    return e


def names(e, acc=None):
    acc = set() if acc is None else acc
    if isinstance(e, str):
        acc.add(e)
    elif isinstance(e, list):
        for a in e[1:]:
            names(a, acc)
    return acc


def ev(e, env, sp):
    ALL = sp.ALL
    if e is True:
        return ALL
    if e is False:
        return 0
    if isinstance(e, str):
        return env[e]
    op = e[0]
    vs = [ev(a, env, sp) for a in e[1:]]
    if op == "not":
        return ALL ^ vs[0]
    if op == "and":
        r = ALL
        for v in vs:
            r &= v
        return r
    if op == "or":
        r = 0
        for v in vs:
            r |= v
        return r
    if op == "xor":
        r = 0
        for v in vs:
            r ^= v
        return r
    if op == "ite":
        return (vs[0] & vs[1]) | ((ALL ^ vs[0]) & vs[2])
    if op == "imp":
        return (ALL ^ vs[0]) | vs[1]
    raise ParseError(op)


def parse_dimacs(text):
    """-> (nvars, nclauses_declared, clauses)"""
    lines = [ln.strip() for ln in text.strip().split("\n") if ln.strip() and not ln.startswith("c")]
    if not lines or not lines[0].startswith("p cnf"):
        raise ParseError("no 'p cnf' header")
    _, _, nv, nc = lines[0].split()
    clauses = []
    for ln in lines[1:]:
        lits = [int(x) for x in ln.split()]
        if not lits or lits[-1] != 0:
            raise ParseError(f"clause line not 0-terminated: {ln!r}")
        clauses.append(lits[:-1])
    return int(nv), int(nc), clauses
