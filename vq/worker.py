"""One process = one shard of one check.  usage: python -m vq.worker ID tier seed shard nshards out"""
import importlib
import json
import os
import signal
import sys
import time
import traceback


class CaseTimeout(BaseException):
    pass


def _alarm(signum, frame):
    raise CaseTimeout()


def main(argv):
    pid, tier, seed, shard, nshards, out = argv
    seed, shard, nshards = int(seed), int(shard), int(nshards)
    from . import repo

    repo.bind()
    mod = importlib.import_module(f"vq.props.{pid.lower()}")
    # heavy third-party imports happen before any per-case deadline is armed: an alarm that fires in the middle of an import
    # leaves half-initialised modules in sys.modules and every later case of this worker fails
    for name in ["qlasskit", "sympy"] + list(getattr(mod, "PREIMPORT", [])):
        try:
            importlib.import_module(name)
        except Exception:
            pass
    if hasattr(mod, "setup"):
        mod.setup()
    deadline = float(getattr(mod, "CASE_TIMEOUT", {}).get(tier, 60)) * float(os.environ.get("VQ_TIMEOUT_SCALE", "1"))
    signal.signal(signal.SIGALRM, _alarm)
    n = 0
    with open(out, "w") as fo:
        fo.write(json.dumps({"hello": 1, "hashseed": os.environ.get("PYTHONHASHSEED"), "shard": shard}) + "\n")
        for idx, case in enumerate(mod.cases(tier, seed)):
            if (idx + seed) % nshards != shard:
                continue
            t0 = time.time()
            signal.setitimer(signal.ITIMER_REAL, deadline)
            try:
                res = mod.check(case)
            except CaseTimeout:
                res = {"status": "timeout"}
            except Exception as e:  # harness error: inconclusive, never a violation
                res = {"status": "error", "error": f"{type(e).__name__}: {e}", "tb": traceback.format_exc()[-1500:]}
            finally:
                signal.setitimer(signal.ITIMER_REAL, 0)
            res["i"] = idx
            res["hs"] = os.environ.get("PYTHONHASHSEED")
            res["t"] = round(time.time() - t0, 4)
            if res.get("fails") or res.get("status") in ("error", "timeout") or n % 97 == 0:
                res["case"] = case
            fo.write(json.dumps(res, default=str) + "\n")
            fo.flush()
            n += 1
        fo.write(json.dumps({"done": 1, "n": n}) + "\n")


if __name__ == "__main__":
    main(sys.argv[1:])
