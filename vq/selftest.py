"""setup_cmd: byte-compile nothing, fetch nothing; verify the oracles against each other in a few seconds."""
import random
import sys


def main():
    from . import repo

    repo.bind()
    import numpy as np
    from qlasskit.qcircuit import QCircuit

    from .oracles import boolvec, revsim, statevec
    from .oracles.space import Space
    from .gen import exprs as G

    rng = random.Random(1)
    # 1. boolvec vs direct python evaluation
    for _ in range(200):
        c = G.rand_list(rng, n_in=4, depth=3)
        lst = G.list_to_sympy(c["list"])
        sp = Space(4)
        env = boolvec.eval_list(lst, c["inputs"], sp)
        for row in range(16):
            vals = {nm: bool((row >> i) & 1) for i, nm in enumerate(c["inputs"])}
            for s, e in lst:
                v = bool(e.subs(vals)) if hasattr(e, "subs") else bool(e)
                vals[s.name] = v
                if ((env[s.name] >> row) & 1) != int(v) and s.name.startswith("_ret"):
                    print("selftest: boolvec disagrees with sympy subs", c, row)
                    return 1
    # 2. statevec vs revsim on classical circuits, vs qiskit on general ones
    for _ in range(30):
        qc = QCircuit(3)
        for _ in range(8):
            k = rng.choice(["x", "cx", "ccx"])
            q = rng.sample(range(3), 3)
            if k == "x":
                qc.x(q[0])
            elif k == "cx":
                qc.cx(q[0], q[1])
            else:
                qc.ccx(q[0], q[1], q[2])
        sp = Space(3)
        st = revsim.run(qc.gates, revsim.initial_state(3, 3, sp), sp)
        U = statevec.unitary(qc.gates, 3)
        for row in range(8):
            out = sum((((st[q] >> row) & 1) << q) for q in range(3))
            if abs(U[out, row] - 1) > 1e-9:
                print("selftest: statevec disagrees with revsim")
                return 1
    try:
        from qiskit.quantum_info import Operator

        for _ in range(20):
            from qlasskit.qcircuit import gates as GT

            qc = QCircuit.random(3, 8, [GT.X, GT.H, GT.Z, GT.Y, GT.CZ, GT.CX, GT.CCX, GT.S, GT.T, GT.Swap])
            U = statevec.unitary(qc.gates, 3)
            UQ = Operator(qc.export("circuit", "qiskit")).data
            if not np.allclose(U, UQ, atol=1e-8):
                print("selftest: statevec disagrees with qiskit Operator")
                return 1
    except Exception as e:
        print("selftest: qiskit cross-check skipped:", type(e).__name__)
    print("selftest ok")
    return 0


if __name__ == "__main__":
    sys.exit(main())
