"""vq: runtime-monitoring harness for dakk/qlasskit (see /verif/DESIGN.md)."""
