"""Shared machinery of C02/C03/C06: compile with the real compiler under monitors, simulate every
qubit on every input, and produce per-property observations + forensic attribution."""
from ..oracles import boolvec, revsim
from ..oracles.space import Space

LOG = {}
_installed = False


def install():
    """Recording wrappers (record-and-continue) on the scratch-qubit life-cycle of QCircuitEnhanced."""
    global _installed
    if _installed:
        return
    _installed = True
    from qlasskit.qcircuit import qcircuitenhanced as qe

    cls = qe.QCircuitEnhanced
    ou = cls.uncompute_all

    def uncompute_all(self, keep=[]):
        LOG["ua_pre_len"] = len(self.gates)
        LOG["ua_keep"] = list(keep)
        LOG["ua_free_entry"] = set(self.free_ancilla_lst)
        LOG["ua_anc_entry"] = set(self.ancilla_lst)
        LOG["ua_calls"] = LOG.get("ua_calls", 0) + 1
        r = ou(self, keep)
        LOG["ua_post_len"] = len(self.gates)
        return r

    cls.uncompute_all = uncompute_all
    oun = cls.uncompute

    def uncompute(self, to_mark=[]):
        t0 = len(self.gates)
        r = oun(self, to_mark)
        if r:
            LOG.setdefault("inline", []).append((t0, len(self.gates), sorted(r)))
        LOG["unc_calls"] = LOG.get("unc_calls", 0) + 1
        return r

    cls.uncompute = uncompute
    og = cls.get_free_ancilla

    def get_free_ancilla(self):
        had = len(self.free_ancilla_lst) > 0
        q = og(self)
        if had:
            LOG.setdefault("reuse", []).append((q, len(self.gates)))
        else:
            LOG["fresh_anc"] = LOG.get("fresh_anc", 0) + 1
        return q

    cls.get_free_ancilla = get_free_ancilla
    ori = cls.remove_identities

    def remove_identities(self):
        n0 = len(self.gates)
        r = ori(self)
        LOG["ri_removed"] = n0 - len(self.gates)
        return r

    cls.remove_identities = remove_identities


def reset():
    LOG.clear()


# ---- counterfactual: the same compile with compile_not's in-place negation branch disabled ----------
COUNTERFACTUAL = {"no_inplace_not": False}


class _AncillaSet(set):
    """ancilla set that answers 'not an ancilla' only to compile_not's in-place test"""

    def __contains__(self, x):
        import sys

        if COUNTERFACTUAL["no_inplace_not"] and sys._getframe(1).f_code.co_name == "compile_not":
            return False
        return set.__contains__(self, x)


def install_counterfactual():
    from qlasskit.qcircuit import qcircuitenhanced as qe

    cls = qe.QCircuitEnhanced
    if getattr(cls, "_vq_cf", False):
        return
    cls._vq_cf = True
    oi = cls.__init__

    def __init__(self, *a, **k):
        oi(self, *a, **k)
        if COUNTERFACTUAL["no_inplace_not"]:
            self.ancilla_lst = _AncillaSet(self.ancilla_lst)

    cls.__init__ = __init__


class Obs:
    """what one compile + simulation showed"""

    def __init__(self):
        self.nq = 0
        self.ngates = 0
        self.nonclassical = False
        self.ret_unmapped = []
        self.wrong_out = []  # (ret name, qubit, first row, n rows)
        self.dirty = []  # (qubit, kind 'input'|'scratch', first row, nrows)
        self.out_qubits = []
        self.log = {}
        self.final = None
        self.expected = None


def simulate(qc, n_in, sp, preset=None, trace=None):
    st = revsim.initial_state(qc.num_qubits, n_in, sp, preset)
    revsim.run(qc.gates, st, sp, trace)
    return st


def observe(qc, input_names, ret_names, exprs, sp=None, y_qubit=None):
    """Compare the circuit with the expression list handed to the compiler.
    y_qubit: when set (C06), the space has one extra variable (index n) preset on that qubit and the
    expectation for it is y xor f(x)."""
    o = Obs()
    n = len(input_names)
    o.nq = qc.num_qubits
    o.ngates = len(qc.gates)
    o.log = dict(LOG)
    if any(not revsim.is_classical(g) for g, w, p in qc.gates):
        o.nonclassical = True
        return o
    extra = 1 if y_qubit is not None else 0
    sp = sp or Space(n + extra)
    env = boolvec.eval_list(exprs, input_names, sp)
    preset = {y_qubit: sp.var(n)} if y_qubit is not None else None
    st = simulate(qc, n, sp, preset)
    o.final = st
    outs = []
    for r in ret_names:
        if r not in qc.qubit_map:
            o.ret_unmapped.append(r)
            continue
        q = qc.qubit_map[r]
        outs.append(q)
        exp = env[r]
        if y_qubit is not None and q == y_qubit:
            exp ^= sp.var(n)
        d = st[q] ^ exp
        if d:
            o.wrong_out.append((r, q, sp.row(sp.first(d)), sp.popcount(d)))
    o.out_qubits = outs
    for q in range(qc.num_qubits):
        if q in outs:
            continue
        if q < n:
            d = st[q] ^ sp.var(q)
            kind = "input"
        else:
            d = st[q]
            kind = "scratch"
        if d:
            o.dirty.append((q, kind, sp.row(sp.first(d)), sp.popcount(d)))
    return o


# ------------------------------------------------------------------ forensics for uncompute_all
def forensics(qc, n_in, sp=None, preset=None):
    """Align the replay part R appended by uncompute_all with the compute part G and classify the
    first deviation from the ideal final uncompute (DESIGN 5.3).  -> list of (kind, gate_index, classes)"""
    P = LOG.get("ua_pre_len")
    if P is None:
        return [("no_uncompute_all", -1, ("none",))]
    sp = sp or Space(n_in)
    keep = set(LOG.get("ua_keep", []))
    free0 = LOG.get("ua_free_entry", set())
    anc0 = LOG.get("ua_anc_entry", set())
    G = qc.gates[:P]
    R = qc.gates[P:]
    st = revsim.initial_state(qc.num_qubits, n_in, sp, preset)
    cv = {}
    ALL = sp.ALL
    reuse_at = {}
    if LOG.get("ri_removed", 0) == 0:  # gate indices recorded during synthesis are still valid
        for q, t in LOG.get("reuse", []):
            reuse_at.setdefault(t, []).append(q)
    inv = []
    for i, (g, w, p) in enumerate(G):
        for q in reuse_at.get(i, ()):
            if st[q]:
                inv.append(("reused_ancilla_not_zero", i, q))
        if revsim.gate_kind(g) == "nop":
            continue
        c = ALL
        for q in w[:-1]:
            c &= st[q]
        cv[i] = c
        st[w[-1]] ^= c
    for q in sorted(free0):
        if q < len(st) and st[q]:
            inv.append(("free_ancilla_not_zero_at_final_uncompute", P, q))
    LOG["inv_fails"] = inv
    LOG["inv_class"] = _classify_inv(inv[0], G, P) if inv else None
    devs = []
    ptr = 0
    freed = set(free0)
    for i in range(P - 1, -1, -1):
        g, w, p = G[i]
        if revsim.gate_kind(g) == "nop":
            continue
        t = w[-1]
        replayed = ptr < len(R) and type(R[ptr][0]).__name__ == type(g).__name__ and list(R[ptr][1]) == list(w)
        legit_skip = t in keep or t in free0
        if replayed and not legit_skip:
            c = ALL
            for q in w[:-1]:
                c &= st[q]
            if c != cv[i]:
                cls = set()
                for q in w[:-1]:
                    # q is reset after gate i by a gate of an inline uncompute() batch that returned q
                    inl = [e for e in LOG.get("inline", []) if q in e[2] and e[1] > i
                           and any(G[j][1] and G[j][1][-1] == q for j in range(max(i + 1, e[0]), min(e[1], P)))]
                    later_keep = q in keep and any(G[j][1] and G[j][1][-1] == q for j in range(i + 1, P) if revsim.gate_kind(G[j][0]) != "nop")
                    if inl:
                        cls.add("ii-a")
                    elif later_keep:
                        cls.add("ii-b")
                devs.append(("ii", i, tuple(sorted(cls)) or ("ii-other",)))
            st[t] ^= c
            ptr += 1
            if t in anc0:
                freed.add(t)
        elif replayed and legit_skip:
            devs.append(("replayed_kept", i, ("replayed-kept",)))
            c = ALL
            for q in w[:-1]:
                c &= st[q]
            st[t] ^= c
            ptr += 1
        else:
            if legit_skip:
                continue
            devs.append(("i", i, ("i-a",) if (t in anc0 and t in freed) else ("i-other",)))
    if ptr != len(R):
        devs.append(("align", ptr, ("align",)))
    devs.sort(key=lambda d: -d[1] if d[0] != "align" else -10**9)
    return devs


def _classify_inv(first, G, P):
    """A free/recycled ancilla that is not |0>: was it released by an inline uncompute() batch that replayed one of its
    gates after a control qubit of that gate had itself been reset by an inline batch?  (stale control in uncompute())"""
    kind, t, q = first
    batches = [e for e in LOG.get("inline", []) if q in e[2] and e[1] <= t]
    if not batches:
        return "not-released-by-inline-uncompute"
    t0, t1, _ = batches[-1]
    for j in range(t0, min(t1, P)):
        g, w, p = G[j]
        if not w or w[-1] != q or revsim.gate_kind(g) == "nop":
            continue
        origin = None
        for k in range(t0 - 1, -1, -1):
            gk, wk, pk = G[k]
            if type(gk).__name__ == type(g).__name__ and list(wk) == list(w):
                origin = k
                break
        if origin is None:
            continue
        for c in w[:-1]:
            for e in LOG.get("inline", []):
                if c in e[2] and origin < e[1] <= j + 1 and any(G[m][1] and G[m][1][-1] == c for m in range(max(origin + 1, e[0]), min(e[1], j + 1))):
                    return "inline-stale-control"
    return "other"


def scratch_invariants(qc, n_in, sp=None, preset=None):
    """Simulate the compute part and check the scratch invariants (every recycled ancilla is |0> when handed out; every
    ancilla listed free at the final uncompute is |0>).  -> (first failure or None, its class)"""
    sp = sp or Space(n_in)
    P = LOG.get("ua_pre_len")
    if P is None:
        P = len(qc.gates)
    G = qc.gates[:P]
    st = revsim.initial_state(qc.num_qubits, n_in, sp, preset)
    reuse_at = {}
    if LOG.get("ri_removed", 0) == 0:
        for q, t in LOG.get("reuse", []):
            reuse_at.setdefault(t, []).append(q)
    ALL = sp.ALL
    first = None
    for i, (g, w, p) in enumerate(G):
        for q in reuse_at.get(i, ()):
            if st[q] and first is None:
                first = ("reused_ancilla_not_zero", i, q)
        if revsim.gate_kind(g) == "nop":
            continue
        c = ALL
        for q in w[:-1]:
            c &= st[q]
        st[w[-1]] ^= c
    if first is None:
        for q in sorted(LOG.get("ua_free_entry", set())):
            if q < len(st) and st[q]:
                first = ("free_ancilla_not_zero_at_final_uncompute", P, q)
                break
    return first, (_classify_inv(first, G, P) if first else None)


def blame_wrong_output(case, unc, compile_fn, log):
    """Root cause of an output that the C02 monitor finds wrong: (1) in-place negation finding, by counterfactual;
    (2) a recycled ancilla that an inline uncompute() released while not |0> (KF-C03-2), by the scratch invariants."""
    # (1) needs BOTH: the shadow monitor saw an in-place negation of a qubit that a pending operand list referred to,
    # and the failure vanishes when only that branch is disabled
    from ..monitors import shadow

    clobbers = []
    try:
        shadow.install()
        shadow.arm(True)
        compile_fn(case, unc)
        clobbers = list(shadow.STATE.get("clobbers", []))
    except Exception:
        pass
    finally:
        shadow.arm(False)
    if clobbers:
        install_counterfactual()
        COUNTERFACTUAL["no_inplace_not"] = True
        try:
            qc2, n2, r2, e2, _ = compile_fn(case, unc)
            o2 = observe(qc2, n2, r2, e2)
            if not o2.wrong_out and not o2.ret_unmapped:
                return "c02_inplace_not_clobbers_operand"
        except Exception:
            pass
        finally:
            COUNTERFACTUAL["no_inplace_not"] = False
    try:
        qc1, n1, r1, e1, _ = compile_fn(case, unc)
        first, cls = scratch_invariants(qc1, len(n1))
        if first is not None and first[0] == "reused_ancilla_not_zero" and cls == "inline-stale-control":
            return "c03_inline_uncompute_stale_control"
    except Exception:
        pass
    return None
