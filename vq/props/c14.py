"""C14 — circuit composition operators compose (section 5.14)."""
import copy
import random

import numpy as np

from ..gen import circuits as GC
from ..oracles import revsim, statevec

ID = "C14"
LEVEL = "exploration"
RULE = (
    "case = one history over circuits: (a) append_circuit of a random circuit onto a random injective qubit list of a wider/equal circuit, a+b, a+=b, "
    "repeat(n) for n in 1..5, copy(), copy(vanilla=True), each followed by mutations of the result (append, slice-assign, add_qubit, in-place wire edit) "
    "with the operands' fingerprints re-read; (b) remove_identities on circuits with re-appended gate objects (cancelling pairs at start/middle/end, "
    "around barriers, overlapping triples); (c) qft then iqft on every qubit list of length <=5; unitaries compared exactly; non-trivial = both operands "
    "have >=1 gate (a), >=1 pair cancels (b), list length >=2 (c); distinct by case text"
)
PREIMPORT = ["numpy"]
DECIDING = ["enhanced_operands", "append_circuit_checked", "add_checked", "iadd_checked", "repeat_checked", "copy_checked", "remove_identities_checked", "pairs_cancelled", "qft_checked"]
ASSUMPTIONS = ["own numpy unitary simulator; qubit i = bit i", "repeat(0) is outside the claim (undefined by the docstring)",
               "remove_identities is exercised with re-appended identical gate objects, the only pairs it can recognise"]
POOL = ["x", "y", "z", "h", "s", "t", "cx", "cz", "ccx", "mcx", "swap", "cp", "p", "barrier"]


def cases(tier, seed):
    rng = random.Random(14000 + seed)
    n = 500 if tier == "quick" else 6000
    for i in range(n):
        na = rng.randint(1, 5)
        nb = rng.randint(1, na)
        a = GC.rand_circuit(rng, nq=na, ngates=rng.randint(0, 8), pool=POOL, p_classical=0.4)
        b = GC.rand_circuit(rng, nq=nb, ngates=rng.randint(0, 8), pool=POOL, p_classical=0.4)
        qubits = rng.sample(range(na), nb)
        if rng.random() < 0.3 and nb < na:
            qubits[rng.randrange(nb)] = na - 1 if (na - 1) not in qubits else qubits[0]
        if len(set(qubits)) != nb:
            qubits = rng.sample(range(na), nb)
        yield {"kind": "compose", "a": a, "b": b, "qubits": qubits, "n": rng.randint(1, 5), "enh": i % 3 == 0}
    for i in range(n):
        yield {"kind": "remid", "spec": remid_spec(rng), "nq": rng.randint(1, 4)}
    for c in REMID_CORPUS:
        yield dict(c, kind="remid")
    import itertools

    for total in range(1, 6):
        for k in range(1, total + 1):
            for wl in itertools.permutations(range(total), k):
                if k <= 2 or rng.random() < (0.15 if tier == "quick" else 1.0):
                    yield {"kind": "qft", "nq": total, "wl": list(wl)}
    # longer registers (every controlled-phase distance up to 9): identity, permuted and partial lists on wider circuits
    for total in range(6, 11 if tier == "thorough" else 10):
        yield {"kind": "qft", "nq": total, "wl": list(range(total))}
        wl = list(range(total))
        rng.shuffle(wl)
        yield {"kind": "qft", "nq": total, "wl": wl}
        if total >= 7:
            yield {"kind": "qft", "nq": total, "wl": wl[: total - 1]}


REMID_CORPUS = [
    # adjacent multi-controlled wrappers of different inner gates on the same wires are not an identity
    {"nq": 3, "spec": [["g", "mcx2", [0, 1, 2]], ["sib", "mcz2"], ["g", "h", [2]]]},
    {"nq": 2, "spec": [["g", "h", [1]], ["g", "mch1", [0, 1]], ["sib", "mcy1"]]},
    {"nq": 2, "spec": [["g", "mcx1", [0, 1]], ["sib", "mcz1"], ["g", "x", [0]]]},
    {"nq": 2, "spec": [["g", "mcx1", [0, 1]], ["bar"], ["g", "mcz1", [0, 1]]]},
    {"nq": 2, "spec": [["g", "mcx1", [0, 1]], ["sib", "mcx1"]]},
    {"nq": 2, "spec": [["g", "x", [0]], ["dup"], ["g", "cx", [0, 1]]]},
    {"nq": 2, "spec": [["g", "cx", [0, 1]], ["g", "x", [0]], ["dup"]]},
    {"nq": 2, "spec": [["g", "h", [0]], ["g", "x", [1]], ["bar"], ["dup2"]]},
    {"nq": 1, "spec": [["g", "x", [0]], ["dup"], ["dup"]]},
    {"nq": 2, "spec": [["bar"], ["g", "x", [0]], ["dup"]]},
    {"nq": 2, "spec": [["g", "x", [0]], ["bar"], ["dup2"]]},
    {"nq": 1, "spec": [["g", "s", [0]], ["dup"]]},
    {"nq": 2, "spec": [["g", "cp", [0, 1]], ["dup"]]},
    {"nq": 2, "spec": [["g", "cx", [0, 1]], ["dupperm"]]},
    {"nq": 3, "spec": [["g", "ccx", [0, 1, 2]], ["dupperm"], ["g", "x", [0]]]},
    {"nq": 3, "spec": [["g", "cx", [2, 1]], ["bar"], ["g", "h", [0]], ["g", "cx", [0, 1]], ["dupperm"], ["dup"]]},
]


def remid_spec(rng):
    """sequence of: ["g", name, wires] new gate | ["dup"] re-append the previous gate object | ["dup2"] re-append the gate before the previous barrier | ["bar"]"""
    out = []
    for _ in range(rng.randint(1, 9)):
        r = rng.random()
        if r < 0.3 and out and out[-1][0] in ("g", "dup"):
            out.append(["dup"])
        elif r < 0.4 and len(out) >= 2 and out[-1][0] == "bar" and out[-2][0] in ("g", "dup"):
            out.append(["dup2"])
        elif r < 0.48 and out and out[-1][0] in ("g", "dup"):
            out.append(["dupperm"])
        elif r < 0.55:
            out.append(["bar"])
        elif r < 0.63 and out and out[-1][0] in ("g", "sib"):
            out.append(["sib", rng.choice(["mcx1", "mcz1", "mch1", "mcy1", "mcx2", "mcz2", "x", "cx", "cz", "z"])])
        else:
            out.append(["g", rng.choice(["x", "x", "cx", "h", "z", "ccx", "s", "t", "swap", "cz", "y", "mcx1", "mcz1", "mcx2", "mch1"]), None])
    return out


def _sig(qc):
    base = ([(type(g).__name__, tuple(w), p) for g, w, p in qc.gates], dict(qc.qubit_map), qc.num_qubits)
    if hasattr(qc, "ancilla_lst"):
        # the ancilla bookkeeping of an enhanced circuit is part of its observable state (it decides what later
        # get_free_ancilla / uncompute calls do)
        base += (sorted(qc.ancilla_lst), sorted(qc.free_ancilla_lst), sorted(qc.marked_ancillas), [(type(g).__name__, tuple(w), p) for g, w, p in qc.gates_computed])
    return base


def _U(qc):
    return statevec.unitary(qc.gates, qc.num_qubits)


def _embed(Ub, qubits, n):
    """unitary on n qubits applying Ub with its qubit j on qubits[j]"""
    N = 1 << n
    nb = len(qubits)
    M = np.zeros((N, N), dtype=complex)
    rest = [q for q in range(n) if q not in qubits]
    for col in range(N):
        sub = sum((((col >> q) & 1) << j) for j, q in enumerate(qubits))
        base = col
        for q in qubits:
            base &= ~(1 << q)
        for subout in range(1 << nb):
            amp = Ub[subout, sub]
            if amp != 0:
                row = base
                for j, q in enumerate(qubits):
                    if (subout >> j) & 1:
                        row |= 1 << q
                M[row, col] += amp
    return M


def _mutate(res):
    from qlasskit.qcircuit import gates

    res.append(gates.X(), [0])
    if res.gates:
        res.gates[0:1] = []
    for g, w, p in res.gates:
        if len(w) >= 1:
            free = [q for q in range(res.num_qubits) if q not in w]
            if free:
                w[0] = free[(w[0] + 1) % len(free)]
            else:
                w.reverse()
            break
    res.add_qubit("zz")
    if hasattr(res, "ancilla_lst"):
        res.add_ancilla()
        k = res.get_free_ancilla()
        res.cx(0, k)
        res.mark_ancilla(k)
        res.uncompute()
        res.get_free_ancilla()


def check(case):
    return globals()["check_" + case["kind"]](case)


def check_compose(case):
    fails, cnt = [], {}
    enh = bool(case.get("enh"))
    a, b, qubits, n = GC.build(case["a"], enhanced=enh, name="a"), GC.build(case["b"], name="b"), case["qubits"], case["n"]
    if enh:
        # an enhanced circuit in mid-compilation state: one ancilla computed and marked, one free
        k1 = a.add_ancilla(is_free=False)
        a.cx(0, k1)
        a.mark_ancilla(k1)
        a.add_ancilla()
        cnt["enhanced_operands"] = 1
    na = a.num_qubits
    Ua, Ub = _U(a), _U(b)
    sa, sb = _sig(a), _sig(b)

    def fail(kind, msg):
        fails.append({"kind": kind, "msg": f"{msg}; a={case['a']} b={case['b']} qubits={qubits} n={n}", "pred": None})

    def operands_intact(what):
        if _sig(a) != sa:
            fail(what + "_operand_a_modified", "left operand changed")
        if _sig(b) != sb:
            fail(what + "_operand_b_modified", "right operand changed")

    # append_circuit (mutates a copy of a)
    try:
        t = copy.deepcopy(a)
        r = t.append_circuit(b, list(qubits))
        cnt["append_circuit_checked"] = 1
        if not statevec.same_unitary(_U(t), _embed(Ub, qubits, na) @ Ua):
            fail("append_circuit", "append_circuit(b, qubits) is not b on those qubits after a")
        _mutate(t)
        operands_intact("append_circuit")
    except Exception as e:
        fail("append_circuit_exception", f"{type(e).__name__}: {e}")
    full = list(range(b.num_qubits))
    # a + b
    try:
        r = a + b
        cnt["add_checked"] = 1
        if r.num_qubits != na or not statevec.same_unitary(_U(r), _embed(Ub, full, na) @ Ua):
            fail("add", "a + b is not the sequential composition")
        operands_intact("add")
        _mutate(r)
        operands_intact("add_then_mutate")
    except Exception as e:
        fail("add_exception", f"{type(e).__name__}: {e}")
    # a += b
    try:
        t = copy.deepcopy(a)
        t2 = t
        t2 += b
        cnt["iadd_checked"] = 1
        if t2 is not t or not statevec.same_unitary(_U(t2), _embed(Ub, full, na) @ Ua):
            fail("iadd", "a += b is not the sequential composition in place")
        _mutate(t2)
        operands_intact("iadd")
    except Exception as e:
        fail("iadd_exception", f"{type(e).__name__}: {e}")
    # repeat
    try:
        r = a.repeat(n)
        cnt["repeat_checked"] = 1
        if r.num_qubits != na or not statevec.same_unitary(_U(r), np.linalg.matrix_power(Ua, n)):
            fail("repeat", f"repeat({n}) is not the {n}-fold composition")
        operands_intact("repeat")
        _mutate(r)
        operands_intact("repeat_then_mutate")
    except Exception as e:
        fail("repeat_exception", f"{type(e).__name__}: {e}")
    # copies
    for vanilla in (False, True):
        try:
            r = a.copy(vanilla) if vanilla else a.copy()
            cnt["copy_checked"] = cnt.get("copy_checked", 0) + 1
            if r is a or r.num_qubits != na or not statevec.same_unitary(_U(r), Ua):
                fail("copy", f"copy(vanilla={vanilla}) is not an equal circuit")
            if not vanilla and _sig(r) != sa:
                fail("copy", "copy() differs from its source")
            if enh and not vanilla:
                # an independent equal circuit behaves like its source from here on
                r2, a2 = a.copy(), copy.deepcopy(a)
                u1, u2 = r2.uncompute(), a2.uncompute()
                k1, k2 = r2.get_free_ancilla(), a2.get_free_ancilla()
                if (u1, k1, _sig(r2)) != (u2, k2, _sig(a2)):
                    fail("copy_behaviour", f"after uncompute()/get_free_ancilla() the copy is {(u1, k1)} and the source {(u2, k2)}")
                operands_intact("copy_then_uncompute")
            if vanilla and dict(r.qubit_map) != {f"q{i}": i for i in range(na)}:
                fail("copy_vanilla_map", f"vanilla copy has qubit_map {r.qubit_map}")
            _mutate(r)
            operands_intact(f"copy_{vanilla}")
        except Exception as e:
            fail("copy_exception", f"{type(e).__name__}: {e}")
    nt = len([g for g in case["a"]["gates"] if g[0] != "barrier"]) > 0 and len([g for g in case["b"]["gates"] if g[0] != "barrier"]) > 0
    return {"status": "checked", "key": str(case), "nontrivial": nt, "evals": 6, "fails": fails[:4], "counters": cnt, "cov": [f"na:{na}", f"nb:{b.num_qubits}", f"n:{n}"], "sample": case}


SELF_INVERSE = {"x", "y", "z", "h", "cx", "cz", "ccx", "swap"}


def check_remid(case):
    from qlasskit.qcircuit import QCircuitEnhanced, gates

    rng = random.Random(str(case["spec"]) + str(case["nq"]))
    nq = case["nq"]
    qc = QCircuitEnhanced(nq)
    names = {"x": gates.X, "h": gates.H, "z": gates.Z, "y": gates.Y, "s": gates.S, "t": gates.T, "cx": gates.CX, "cz": gates.CZ, "ccx": gates.CCX, "swap": gates.Swap, "cp": gates.CP,
             # generic multi-controlled wrappers: same class and arity, different inner gate
             "mcx1": lambda: gates.MCtrl(gates.X(), 1), "mcz1": lambda: gates.MCtrl(gates.Z(), 1), "mch1": lambda: gates.MCtrl(gates.H(), 1), "mcy1": lambda: gates.MCtrl(gates.Y(), 1),
             "mcx2": lambda: gates.MCtrl(gates.X(), 2), "mcz2": lambda: gates.MCtrl(gates.Z(), 2)}
    last = None
    prev_before_bar = None
    pairs = 0
    noninv = False
    desc = []
    for st in case["spec"]:
        if st[0] == "bar":
            if last is not None:
                prev_before_bar = last
            qc.barrier()
            desc.append("barrier")
            last = None
        elif st[0] == "g":
            cls = names[st[1]]
            g = cls()
            if g.n_qubits > nq:
                g = gates.X()
            w = st[2] if st[2] is not None and len(st[2]) == g.n_qubits else rng.sample(range(nq), g.n_qubits)
            p = 0.5 if isinstance(g, gates.CP) else None
            qc.append(g, list(w), p)
            last = (g, list(w), p)
            desc.append((type(g).__name__, list(w)))
        elif st[0] == "sib" and last is not None:
            # a DIFFERENT gate object (possibly another gate of the same class and arity) on the same wires
            g = names[st[1]]()
            if g.n_qubits == len(last[1]):
                qc.append(g, list(last[1]), None)
                desc.append(("other-object-same-wires", st[1], list(last[1])))
                last = (g, list(last[1]), None)
        elif st[0] == "dup" and last is not None:
            qc.append(last[0], list(last[1]), last[2])
            pairs += 1
            noninv |= type(last[0]).__name__.lower() not in SELF_INVERSE
            desc.append(("same-object", type(last[0]).__name__, list(last[1])))
        elif st[0] == "dupperm" and last is not None and len(last[1]) >= 2:
            # the same gate OBJECT on the same qubits in another order: not an identical application
            w2 = list(last[1])
            w2 = w2[1:] + w2[:1]
            qc.append(last[0], w2, last[2])
            desc.append(("same-object-permuted-wires", type(last[0]).__name__, w2))
            last = (last[0], w2, last[2])
        elif st[0] == "dup2" and prev_before_bar is not None and last is None:
            g, w, p = prev_before_bar
            qc.append(g, list(w), p)
            pairs += 1
            noninv |= type(g).__name__.lower() not in SELF_INVERSE
            last = (g, list(w), p)
            desc.append(("same-object-across-barrier", type(g).__name__, list(w)))
    U0 = _U(qc)
    n0 = len(qc.gates)
    fails, cnt = [], {"remove_identities_checked": 1}
    try:
        qc.remove_identities()
        if len(qc.gates) < n0:
            cnt["pairs_cancelled"] = 1
        if qc.num_qubits != nq or not statevec.same_unitary(_U(qc), U0):
            fails.append({"kind": "remove_identities_changed_action", "msg": f"remove_identities changed the unitary of {desc} -> {[(type(g).__name__, w) for g, w, p in qc.gates]}",
                          "pred": "c14_remove_identities_non_involutory" if noninv else None})
    except Exception as e:
        fails.append({"kind": "remove_identities_exception", "msg": f"{type(e).__name__}: {e} on {desc}", "pred": None})
    return {"status": "checked", "key": str(case), "nontrivial": pairs > 0, "evals": 1, "fails": fails, "counters": cnt, "cov": [f"pairs:{min(pairs, 3)}"], "sample": desc}


def check_qft(case):
    from qlasskit.qcircuit import QCircuit

    nq, wl = case["nq"], case["wl"]
    qc = QCircuit(nq)
    qc.qft(list(wl))
    k1 = len(qc.gates)
    qc.iqft(list(wl))
    fails = []
    U = _U(qc)
    if not statevec.same_unitary(U, np.eye(1 << nq, dtype=complex)):
        fails.append({"kind": "iqft_not_inverse", "msg": f"iqft(wl) after qft(wl) is not the identity for wl={wl} on {nq} qubits", "pred": None})
    # qft itself: textbook DFT on the listed qubits (wl[0] most significant), up to the library's documented order
    return {"status": "checked", "key": str(case), "nontrivial": len(wl) >= 2, "evals": 1, "fails": fails, "counters": {"qft_checked": 1}, "cov": [f"qft_len:{len(wl)}"], "sample": case}
