"""C15 — Grover search amplifies exactly the solutions of the predicate (section 5.15)."""
import math
import random

import numpy as np

from ..oracles import codec, sparsevec
from . import algocommon as A

ID = "C15"
LEVEL = "exploration"
RULE = (
    "case = one solution set S over a search register of 2..5 bits (thorough: 6) with 1 <= |S| <= N/4, written in several syntactic forms (disjunction of "
    "equalities, bit minterms, comparison range, tuple-typed argument, Grover(g, y) forms) plus an ideal hand-built xor-oracle; exact output distribution "
    "of Grover(...).circuit() from |0..0> by sparse state-vector simulation; forms compared with each other and with the ideal oracle (1e-9), solutions vs "
    "non-solutions, P(S) > 1/2, decode_output of every solution string, iteration count; non-trivial = >=2 compiled forms simulated; distinct by (n, S)"
)
DECIDING = ["grover_circuits_simulated", "forms_compared", "decode_checked", "iterations_checked"]
ASSUMPTIONS = ["own sparse state-vector simulator (validated against the dense one)", "a form whose black box already fails the C02/C03/C06 monitors is blamed on that root cause (DESIGN 4.5)"]
CASE_TIMEOUT = {"quick": 60, "thorough": 180}


def cases(tier, seed):
    rng = random.Random(15000 + seed)
    nmax = 5 if tier == "quick" else 6
    reps = 5 if tier == "quick" else 20
    for n in range(2, nmax + 1):
        N = 1 << n
        for M in range(1, N // 4 + 1):
            for r in range(reps if N > 4 else 1):
                if N == 4:
                    for s in range(4):
                        yield {"n": n, "S": [s]}
                    break
                S = sorted(rng.sample(range(N), M))
                if r == 0 and M > 1:  # an interval, so that the range form applies
                    lo = rng.randrange(0, N - M + 1)
                    S = list(range(lo, lo + M))
                yield {"n": n, "S": S}


def forms(n, S, rng):
    out = []
    eqs = " or ".join(f"a == {s}" for s in S)
    out.append(("eq_disjunction", f"def f(a: Qint[{n}]) -> bool:\n    return {eqs}\n", None, f"Qint{n}"))

    def minterm(s, name="a"):
        return "(" + " and ".join((f"{name}[{i}]" if (s >> i) & 1 else f"not {name}[{i}]") for i in range(n)) + ")"

    out.append(("minterms", f"def f(a: Qint[{n}]) -> bool:\n    return {' or '.join(minterm(s) for s in S)}\n", None, f"Qint{n}"))
    if S == list(range(S[0], S[0] + len(S))) and len(S) > 1:
        out.append(("range", f"def f(a: Qint[{n}]) -> bool:\n    return a >= {S[0]} and a <= {S[-1]}\n", None, f"Qint{n}"))
    # tuple-typed argument: n bools
    tt = "Tuple[" + ", ".join(["bool"] * n) + "]"
    mt = " or ".join("(" + " and ".join((f"a[{i}]" if (s >> i) & 1 else f"not a[{i}]") for i in range(n)) + ")" for s in S)
    out.append(("tuple_arg", f"def f(a: {tt}) -> bool:\n    return {mt}\n", None, ["bool"] * n))
    N = 1 << n
    # exclusive-or of two overlapping predicates (the compiler reserves the result qubit before the scratch qubits here)
    non = [x for x in range(N) if x not in S]
    T = sorted(rng.sample(non, min(len(non), rng.randint(1, 3))))
    g1 = " or ".join(minterm(x) for x in sorted(S + T))
    g2 = " or ".join(minterm(x) for x in T)
    out.append(("xor_split", f"def f(a: Qint[{n}]) -> bool:\n    return ({g1}) != ({g2})\n", None, f"Qint{n}"))
    out.append(("not_xor_split", f"def f(a: Qint[{n}]) -> bool:\n    return not (({g1}) ^ (not ({g2})))\n", None, f"Qint{n}"))
    if n <= 3:
        tab = ", ".join("1" if x in S else "0" for x in range(N))
        out.append(("lookup", f"def f(a: Qint[{n}]) -> bool:\n    l = [{tab}]\n    return l[a] == 1\n", None, f"Qint{n}"))
    if n in (2, 4) and len(S) <= 2:
        c = rng.randrange(1, N)
        out.append(("arith", f"def f(a: Qint[{n}]) -> bool:\n    b = a + {c}\n    return {' or '.join(f'b == {(s_ + c) % N}' for s_ in S)}\n", None, f"Qint{n}"))
    # bool-returning function with an explicit target value: Grover(g, True) and Grover(not g, False)
    out.append(("g_bool_true", f"def g(a: Qint[{n}]) -> bool:\n    return {eqs}\n", True, f"Qint{n}"))
    out.append(("g_bool_false", f"def g(a: Qint[{n}]) -> bool:\n    return not ({' or '.join(minterm(s_) for s_ in S)})\n", False, f"Qint{n}"))
    if len(S) == 1:
        c = rng.randrange(1, N)
        out.append(("g_identity", f"def g(a: Qint[{n}]) -> Qint[{n}]:\n    return a\n", S[0], f"Qint{n}"))
        out.append(("g_xor_const", f"def g(a: Qint[{n}]) -> Qint[{n}]:\n    return a ^ {c}\n", S[0] ^ c, f"Qint{n}"))
        if n in (2, 4):
            out.append(("g_add_const", f"def g(a: Qint[{n}]) -> Qint[{n}]:\n    return a + {c}\n", (S[0] + c) % N, f"Qint{n}"))
        # the target value written as a typed constant: of the return type, of a narrower type that holds it, of a wider type
        tgt = S[0] ^ c
        out.append(("g_typed_same", f"def g(a: Qint[{n}]) -> Qint[{n}]:\n    return a ^ {c}\n", ["Qint", n, tgt], f"Qint{n}"))
        narrower = [w for w in (2, 3, 4, 5) if w < n and tgt < (1 << w)]
        if narrower and tgt > 0:
            out.append(("g_typed_narrow", f"def g(a: Qint[{n}]) -> Qint[{n}]:\n    return a ^ {c}\n", ["Qint", narrower[0], tgt], f"Qint{n}"))
        out.append(("g_typed_wide", f"def g(a: Qint[{n}]) -> Qint[{n}]:\n    return a ^ {c}\n", ["Qint", 8, tgt], f"Qint{n}"))
    return out


def check(case):
    from qlasskit.algorithms import Grover

    n, S = case["n"], case["S"]
    N, M = 1 << n, len(S)
    rng = random.Random(n * 1000 + sum(S))
    fails, cnt = [], {}
    key = f"{n}:{S}"
    truth = [x in S for x in range(N)]
    exp_iter = math.ceil(math.pi / 4 * math.sqrt(N / M))

    def fail(kind, msg, pred=None):
        if len(fails) < 6:
            fails.append({"kind": kind, "msg": f"{msg} (n={n}, S={S})", "pred": pred})

    def dist_of(alg):
        qc = alg.circuit()
        st = sparsevec.run(qc.gates, qc.num_qubits)
        cnt["grover_circuits_simulated"] = cnt.get("grover_circuits_simulated", 0) + 1
        return sparsevec.marginal(st, list(alg.output_qubits))

    def judge(name, dist, blame=None):
        sol = [dist[s] for s in S]
        non = [dist[x] for x in range(N) if x not in S]
        if abs(dist.sum() - 1) > 1e-9:
            fail("distribution_not_normalised", f"{name}: total probability {dist.sum()}", blame)
        if non and min(sol) <= max(non) + 1e-12:
            fail("solution_not_more_likely", f"{name}: a non-solution has probability {max(non):.4f} >= a solution's {min(sol):.4f}", blame)
        if sum(sol) <= 0.5:
            fail("success_probability", f"{name}: P(S) = {sum(sol):.4f} <= 1/2", blame)

    # reference: the library's own Grover construction around an ideal clean xor-oracle
    ideal = None
    try:
        qf0, _ = A.compile_qf(f"def f(a: Qint[{n}]) -> bool:\n    return a == 0\n")
        A.ideal_oracle(qf0, truth)
        alg0 = Grover(qf0, n_matching=M)
        ideal = dist_of(alg0)
        judge("ideal oracle", ideal)
        # the same ideal black box with an idle scratch qubit allocated AFTER the result qubit
        qf1, _ = A.compile_qf(f"def f(a: Qint[{n}]) -> bool:\n    return a == 0\n")
        A.ideal_oracle(qf1, truth)
        qf1.circuit().add_qubit("idle_scratch")
        d1 = dist_of(Grover(qf1, n_matching=M))
        cnt["forms_compared"] = cnt.get("forms_compared", 0) + 1
        if np.max(np.abs(d1 - ideal)) > 1e-9:
            fail("depends_on_qubit_layout", f"ideal oracle with one idle qubit after the result qubit: distribution differs by {np.max(np.abs(d1 - ideal)):.3g}")
        if alg0.n_iterations != exp_iter:
            fail("iterations", f"n_iterations = {alg0.n_iterations}, expected ceil(pi/4 sqrt(N/M)) = {exp_iter}")
        cnt["iterations_checked"] = 1
    except Exception as e:
        fail("grover_exception", f"ideal oracle: {type(e).__name__}: {e}")
    dists = {}
    for fname, src, y, argt in forms(n, S, rng):
        try:
            qf, log = A.compile_qf(src)
        except Exception as e:
            cnt[f"form_rejected:{fname}"] = 1
            continue
        try:
            hstat, hpred, htext = A.health(qf, log)
            if hstat == "wrong":
                hpred = A.blame_wrong(src, {})
            if y is None:
                alg = Grover(qf, n_matching=M)
                orc_pred = hpred if hstat in ("wrong", "dirty") else None
                orc_bad = hstat in ("wrong", "dirty")
            else:
                if isinstance(y, list):
                    from qlasskit import types as _T

                    y = getattr(_T, f"Qint{y[1]}")(y[2])
                    cnt["typed_targets"] = cnt.get("typed_targets", 0) + 1
                alg = Grover(qf, y, n_matching=M)
                # the equality oracle built by oraclize is the black box actually used
                from . import compilecheck as CC

                o_stat, o_pred, o_text = A.health(alg.oracle, {})
                orc_bad = o_stat in ("wrong", "dirty") or hstat in ("wrong", "dirty")
                orc_pred = hpred if hstat in ("wrong", "dirty") else ("c03_replay_transient_control" if o_stat == "dirty" else None)
                htext = htext or o_text
            d = dist_of(alg)
        except Exception as e:
            fail("grover_exception", f"form {fname}: {type(e).__name__}: {e}")
            continue
        dists[fname] = d
        blame = orc_pred if orc_bad else None
        if orc_bad:
            cnt["forms_with_unhealthy_black_box"] = cnt.get("forms_with_unhealthy_black_box", 0) + 1
        if alg.n_iterations != exp_iter:
            fail("iterations", f"form {fname}: n_iterations = {alg.n_iterations}, expected {exp_iter}")
        if ideal is not None:
            cnt["forms_compared"] = cnt.get("forms_compared", 0) + 1
            if np.max(np.abs(d - ideal)) > 1e-9:
                fail("depends_on_form", f"form {fname}: output distribution differs from the one obtained with an ideal oracle for the same S by {np.max(np.abs(d - ideal)):.3g}"
                     f" (black box: {hstat} {htext})", blame if orc_bad else None)
        judge(f"form {fname}", d, blame)
        # decoding of every solution string
        for s in S:
            reading = "".join(str((s >> i) & 1) for i in range(n))[::-1]
            try:
                got = alg.decode_output(reading)
                # a string measured on all qubits carries the other qubits in front of the register
                extra = alg.circuit().num_qubits - n
                full = "".join(rng.choice("01") for _ in range(extra)) + reading
                got_full = alg.decode_output(full)
                if (tuple(got_full) if isinstance(argt, list) else int(got_full)) != (tuple(got) if isinstance(argt, list) else int(got)):
                    fail("decode_output_full_string", f"form {fname}: decode_output({full!r}) = {got_full!r} but decode_output({reading!r}) = {got!r}")
                expv = codec.decode(argt, [(s >> i) & 1 for i in range(n)])
                cnt["decode_checked"] = cnt.get("decode_checked", 0) + 1
                ok = (tuple(got) == tuple(expv)) if isinstance(argt, list) else (int(got) == expv and type(got).__name__ == argt)
                if not ok:
                    fail("decode_output", f"form {fname}: decode_output({reading!r}) = {got!r}, the solution is {expv!r} in {argt}")
            except Exception as e:
                fail("decode_exception", f"form {fname}: {type(e).__name__}: {e}")
    return {"status": "checked", "key": key, "nontrivial": len(dists) >= 2, "evals": len(dists) + 1, "fails": fails, "counters": cnt, "cov": [f"n:{n}", f"M:{M}"] + [f"form:{k}" for k in dists],
            "sample": {"n": n, "S": S, "forms": list(dists), "P(S) ideal": float(sum(ideal[s] for s in S)) if ideal is not None else None}}
