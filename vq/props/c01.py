"""C01 — boolean expressions mean what the Python source means (section 5.1)."""
import random

from ..gen import programs as P
from ..oracles import boolvec, codec, refsem
from ..oracles.space import make_space
from . import progsem

ID = "C01"
LEVEL = "exploration"
RULE = (
    "case = one generated program of the documented subset (typed grammar: operator x width x statement shape, hostile names, "
    "mixed widths) translated under both shipped optimizer profiles; its expression list and truth_table() are compared on every "
    "argument assignment (exhaustive up to 12 input bits, stratified sample beyond) with the original source executed by CPython on "
    "width-tracked values; non-trivial = accepted, some return bit depends on an input and the body uses >=1 operator/statement "
    "form; distinct by source text"
)
DECIDING = ["accepted", "rows_exact", "truth_table_rows", "reach:translate_expression", "reach:QintImp.add", "reach:QintImp.gt", "reach:Qtype.fill", "reach:ASTRewriter.visit_If", "reach:ASTRewriter.visit_For"]
ASSUMPTIONS = [
    "typing discipline D of DESIGN section 2 (literal widths 2/4/6/8/12/16 by value, +-&|^ and if-expressions the wider operand, * the smallest listed width >= 2*max)",
    "inputs on which an intermediate leaves its range are judged only on the low bits that wrap-around determines, and only for ring-fragment programs",
    "float literals are judged only when they have at most four fractional bits and are below 16 (the library types a float literal as the first shipped Qfixed type within 0.05 of it, "
    "an approximation it documents; finer literals are outside the judged subset); operations between Qfixed values of different sizes are judged on the common grid (max integer bits, max fractional bits)",
]
CASE_TIMEOUT = {"quick": 30, "thorough": 120}
EXH_LIMIT = {"quick": 12, "thorough": 14}


def cases(tier, seed):
    rng = random.Random(1000 + seed)
    n = 450 if tier == "quick" else 5000
    for c in REGRESSION:
        yield dict(c, kind="prog", stream="corpus")
    cfgs = [
        (0.3, P.small_cfg()),
        (0.2, P.Cfg(max_bits=10, depth=3, stmts=3)),
        (0.2, P.collections_cfg()),
        (0.2, P.intchain_cfg()),
        (0.1, P.Cfg(max_bits=12 if tier == "quick" else 16, depth=3 if tier == "quick" else 4, stmts=4, widths=[2, 3, 4, 5, 6, 7, 8, 12])),
    ]
    for w, cfg in cfgs:
        pg = P.PG(rng, cfg)
        for _ in range(int(n * w)):
            yield dict(pg.program(), kind="prog", stream="core")
    for c in P.fixed_char_programs(rng, 90 if tier == "quick" else 900):
        yield dict(c, kind="prog", stream="fixed_char")
    for c in P.mixed_fixed_programs(rng, 40 if tier == "quick" else 400):
        yield dict(c, kind="prog", stream="mixed_fixed")
    for c in P.outside_programs(rng, 60 if tier == "quick" else 400):
        yield dict(c, kind="prog", stream="outside")


def _r(src, args, ret):
    return {"src": src, "args": args, "ret": ret, "feat": ["corpus"]}


REGRESSION = [
    # a local list / tuple constant reassigned from its own elements
    _r("def f(a: Qint[2], b: bool) -> Qint[2]:\n    l = [1, 2]\n    l = [l[1], l[0] + a]\n    return l[0] if b else l[1]\n", [["a", "Qint2"], ["b", "bool"]], "Qint2"),
    _r("def f(a: bool, b: bool) -> bool:\n    t = (True, False)\n    t = (t[1] ^ a, t[0] and b)\n    return t[0] or t[1]\n", [["a", "bool"], ["b", "bool"]], "bool"),
    # an index variable that once held a literal (assignment / finished loop) and was reassigned since
    _r("def f(l: Qlist[Qint[2], 4], a: Qint[2]) -> Qint[2]:\n    i = 0\n    i = a\n    return l[i]\n", [["l", ["Qint2"] * 4], ["a", "Qint2"]], "Qint2"),
    _r("def f(a: Qint[2], c: bool) -> Qint[4]:\n    i = 1\n    if c:\n        i = a\n    return [3, 5, 7, 9][i]\n", [["a", "Qint2"], ["c", "bool"]], "Qint4"),
    _r("def f(l: Qlist[Qint[2], 4], a: Qint[2]) -> Qint[2]:\n    i = 1\n    i += a\n    return l[i]\n", [["l", ["Qint2"] * 4], ["a", "Qint2"]], "Qint2"),
    _r("def f(t: Tuple[bool, bool, bool, bool], a: Qint[2]) -> bool:\n    s = False\n    for i in range(2):\n        s = s ^ t[i]\n    i = a\n    return s ^ t[i]\n", [["t", ["bool"] * 4], ["a", "Qint2"]], "bool"),
    _r("def f(l: Qlist[Qint[2], 2], a: bool) -> Qint[2]:\n    c = 1\n    return l[c] if a else l[0]\n", [["l", ["Qint2"] * 2], ["a", "bool"]], "Qint2"),
    # float literals that are powers of two (the literal's own type must hold the integer part)
    _r("def f(a: Qfixed[3, 3]) -> bool:\n    return a == 4.0\n", [["a", "Qfixed3_3"]], "bool"),
    _r("def f(a: Qfixed[2, 2]) -> Qfixed[2, 2]:\n    return a + 2.0 if a < 2.0 else a\n", [["a", "Qfixed2_2"]], "Qfixed2_2"),
    _r("def f(a: Qfixed[4, 4]) -> bool:\n    return a >= 8.0\n", [["a", "Qfixed4_4"]], "bool"),
    # a tuple literal holding a tuple-typed value (variable, argument, matrix row) with elements of different sizes, indexed later
    _r("def f(a: bool, q: Tuple[Qint[2], bool]) -> bool:\n    t = (a, q)\n    return t[1][1]\n", [["a", "bool"], ["q", ["Qint2", "bool"]]], "bool"),
    _r("def f(a: Qint[2], q: Tuple[Qint[2], bool]) -> Qint[2]:\n    t = (a, q)\n    return t[1][0] + t[0]\n", [["a", "Qint2"], ["q", ["Qint2", "bool"]]], "Qint2"),
    _r("def f(a: bool, q: Tuple[bool, Qint[3]]) -> Tuple[Qint[3], bool]:\n    t = (q, a, q)\n    return (t[2][1], t[0][0] ^ t[1])\n", [["a", "bool"], ["q", ["bool", "Qint3"]]], ["Qint3", "bool"]),
    _r("def f(a: Qint[2], b: bool) -> Qint[2]:\n    q = (a + 1, b)\n    t = (b, q)\n    return t[1][0] if t[1][1] else a\n", [["a", "Qint2"], ["b", "bool"]], "Qint2"),
    _r("def f(m: Qmatrix[Qint[2], 2, 2], b: bool) -> Qint[2]:\n    t = (b, m[1])\n    return t[1][1] if t[0] else t[1][0]\n", [["m", [["Qint2", "Qint2"], ["Qint2", "Qint2"]]], ["b", "bool"]], "Qint2"),
    # the loop variable keeps its last value after the loop (name bound before the loop / a parameter / over a list)
    _r("def f(a: Qint[3]) -> Qint[3]:\n    i = 0\n    for i in range(3):\n        a = a ^ i\n    return a + i\n", [["a", "Qint3"]], "Qint3"),
    _r("def f(a: Qint[3], i: Qint[2]) -> Qint[3]:\n    for i in range(1, 4):\n        a = a + i\n    return a ^ i\n", [["a", "Qint3"], ["i", "Qint2"]], "Qint3"),
    _r("def f(a: Qlist[Qint[2], 3]) -> Qint[2]:\n    x = 0\n    for x in a:\n        x = x\n    return x\n", [["a", ["Qint2"] * 3]], "Qint2"),
    _r("def f(a: Qlist[Qint[2], 3], x: Qint[2]) -> Qint[2]:\n    s = x\n    for x in a:\n        s = s ^ x\n    return s + x\n", [["a", ["Qint2"] * 3], ["x", "Qint2"]], "Qint2"),
    _r("def f(a: Qint[2], b: bool) -> Qint[2]:\n    k = 3\n    for k in range(2):\n        a = a + 1 if b else a\n    return a + k\n", [["a", "Qint2"], ["b", "bool"]], "Qint2"),
    _r("def f(a: Qint[4]) -> Qint[4]:\n    j = 1\n    for i in range(2):\n        for j in range(0, 6, 2):\n            a = a ^ j\n    return a + j\n", [["a", "Qint4"]], "Qint4"),
    # local variables whose names start like the return symbol, reassigned parameters after them
    _r("def f(a: bool, b: bool, c: bool) -> bool:\n    _retained = a and b\n    a = not a\n    return (_retained ^ a) or c\n", [["a", "bool"], ["b", "bool"], ["c", "bool"]], "bool"),
    _r("def f(a: Qint[2], b: Qint[2]) -> Qint[2]:\n    _ret2 = a + b\n    a = a ^ 1\n    b = _ret2 + a\n    return _ret2 ^ b\n", [["a", "Qint2"], ["b", "Qint2"]], "Qint2"),
    _r("def f(a: Qint[2], _retx: bool) -> Tuple[Qint[2], bool]:\n    _return = a + 1 if _retx else a\n    _retx = not _retx\n    a = _return + 1\n    return (_return, _retx)\n", [["a", "Qint2"], ["_retx", "bool"]], ["Qint2", "bool"]),
    _r("def f(a: Qint[2], done: bool) -> Qint[2]:\n    r = a\n    if done:\n        r = a + 1\n    else:\n        done = True\n        r = a + 2\n    return r\n", [["a", "Qint2"], ["done", "bool"]], "Qint2"),
    _r("def f(a: Qint[2], done: bool) -> Tuple[Qint[2], bool]:\n    r = a\n    if done:\n        done = False\n        r = a + 1\n    else:\n        r = a + 2\n        done = True\n    return (r, done)\n", [["a", "Qint2"], ["done", "bool"]], ["Qint2", "bool"]),
    _r("def f(a: Qlist[Qint[2], 3], seen: bool) -> Qint[2]:\n    n = 0\n    for x in a:\n        if seen:\n            n = n ^ x\n        else:\n            seen = True\n            n = n + x\n    return n\n", [["a", ["Qint2"] * 3], ["seen", "bool"]], "Qint2"),
    _r("def f(a: Qint[2], b: Qint[2]) -> Tuple[Qint[2], Qint[2]]:\n    a, b = b, a\n    return (a, b)\n", [["a", "Qint2"], ["b", "Qint2"]], ["Qint2", "Qint2"]),
    _r("def f(a: Qint[2], b: Qint[2]) -> Tuple[Qint[2], Qint[2]]:\n    for i in range(3):\n        a, b = b, a + b\n    return (a, b)\n", [["a", "Qint2"], ["b", "Qint2"]], ["Qint2", "Qint2"]),
    _r("def f(a: bool, b: bool, c: bool) -> Tuple[bool, bool, bool]:\n    a, b, c = b, c, a\n    return (a, b, c)\n", [["a", "bool"], ["b", "bool"], ["c", "bool"]], ["bool", "bool", "bool"]),
    _r("def f(a: Qint[4], b: Qint[2]) -> Qint[4]:\n    return (a | b) + 1\n", [["a", "Qint4"], ["b", "Qint2"]], "Qint4"),
    _r("def f(a: Qint[4], b: Qint[2], c: bool) -> Qint[4]:\n    return (a ^ b) if c else b\n", [["a", "Qint4"], ["b", "Qint2"], ["c", "bool"]], "Qint4"),
    _r("def f(a: Qint[4]) -> Qint[4]:\n    x = a ^ 1\n    return x + 2\n", [["a", "Qint4"]], "Qint4"),
    _r("def f(a: Qint[4], b: Qint[2]) -> Qint[4]:\n    return (a & b) << 1\n", [["a", "Qint4"], ["b", "Qint2"]], "Qint4"),
    _r("def f(a: Qint[2], b: Qint[4]) -> bool:\n    return a > b\n", [["a", "Qint2"], ["b", "Qint4"]], "bool"),
    _r("def f(a: Qint[2], b: Qint[4]) -> Qint[4]:\n    return a - b\n", [["a", "Qint2"], ["b", "Qint4"]], "Qint4"),
    _r("def f(a: Qint[4]) -> Qint[8]:\n    return a * 6\n", [["a", "Qint4"]], "Qint8"),
    _r("def f(a: Qint[4]) -> Qint[8]:\n    return a * 0\n", [["a", "Qint4"]], "Qint8"),
    _r("def f(a: Qmatrix[bool, 2, 3]) -> bool:\n    c = False\n    for r in a:\n        for x in r:\n            c = c ^ x\n    return c\n", [["a", [["bool"] * 3] * 2]], "bool"),
    _r("def f(a: Qmatrix[Qint[2], 2, 2], i: Qint[2], j: Qint[2]) -> Qint[2]:\n    return a[i][j]\n", [["a", [["Qint2"] * 2] * 2], ["i", "Qint2"], ["j", "Qint2"]], "Qint2"),
    _r("def f(a: Qint[2], b: bool) -> Qint[2]:\n    if b:\n        a += 1\n    else:\n        a ^= 2\n    return a\n", [["a", "Qint2"], ["b", "bool"]], "Qint2"),
    _r("def f(a: Qlist[bool, 4]) -> Tuple[bool, bool]:\n    return (all(a), any(a))\n", [["a", ["bool"] * 4]], ["bool", "bool"]),
    _r("def f(a: Qlist[Qint[2], 3]) -> Tuple[Qint[2], Qint[2], Qint[2]]:\n    return (max(a), min(a), sum(a))\n", [["a", ["Qint2"] * 3]], ["Qint2", "Qint2", "Qint2"]),
    _r("def f(c: Qchar) -> bool:\n    return ord(c) == 3\n", [["c", "Qchar"]], "bool"),
    _r("def f(a: Qint[2], b: Qint[4]) -> Qint[4]:\n    return (a - b) << 1\n", [["a", "Qint2"], ["b", "Qint4"]], "Qint4"),
    _r("def f(a: Qint[2], b: Qint[4]) -> Qint[4]:\n    s = a - b\n    return s if a > 1 else a\n", [["a", "Qint2"], ["b", "Qint4"]], "Qint4"),
    _r("def f(a: Qint[2], b: Qint[4]) -> Qint[2]:\n    return a - b\n", [["a", "Qint2"], ["b", "Qint4"]], "Qint2"),
    _r("def f(a: Qint[2], b: Qint[4]) -> Qint[4]:\n    return (a + b) << 1\n", [["a", "Qint2"], ["b", "Qint4"]], "Qint4"),
    _r("def f(a: Qint[2], b: Qint[4], c: bool) -> Qint[4]:\n    return (b - a) if c else (a - b)\n", [["a", "Qint2"], ["b", "Qint4"], ["c", "bool"]], "Qint4"),
    _r("def f(a: Tuple[bool, Qint[2]], b: Tuple[bool, Qint[2]]) -> bool:\n    return a == b\n", [["a", ["bool", "Qint2"]], ["b", ["bool", "Qint2"]]], "bool"),
    _r("def f(a: Tuple[Qint[2], Qint[4]], b: Tuple[Qint[2], Qint[4]]) -> bool:\n    return a == b\n", [["a", ["Qint2", "Qint4"]], ["b", ["Qint2", "Qint4"]]], "bool"),
    _r("def f(a: Tuple[Qint[2], bool], d: Qint[2]) -> bool:\n    t = (d, True)\n    return a == t\n", [["a", ["Qint2", "bool"]], ["d", "Qint2"]], "bool"),
    _r("def f(a: Tuple[Qint[2], bool], b: Tuple[Qint[2], bool]) -> Tuple[bool, bool]:\n    return (a != b, a == b)\n", [["a", ["Qint2", "bool"]], ["b", ["Qint2", "bool"]]], ["bool", "bool"]),
    _r("def f(a: Tuple[bool, bool], b: Tuple[bool, bool], c: bool) -> bool:\n    return (a != b) ^ c\n", [["a", ["bool", "bool"]], ["b", ["bool", "bool"]], ["c", "bool"]], "bool"),
    _r("def f(a: Qlist[Qint[2], 2], b: Qlist[Qint[2], 2]) -> bool:\n    return a != b\n", [["a", ["Qint2", "Qint2"]], ["b", ["Qint2", "Qint2"]]], "bool"),
]


def setup():
    from qlasskit.ast2ast.astrewriter import ASTRewriter
    from qlasskit.ast2ast.constantfolder import ConstantFolder
    from qlasskit.ast2ast.replacemultitargetassign import ReplaceMultiTargetAssign
    from qlasskit.ast2logic import t_expression, t_statement
    from qlasskit.types.qfixed import QfixedImp
    from qlasskit.types.qint import QintImp
    from qlasskit.types.qtype import Qtype

    from ..monitors import reach

    named = {}
    for nm in ("add", "sub", "mul", "mul_even_const", "mod", "eq", "neq", "gt", "lt", "lte", "gte", "bitwise_generic"):
        named[f"QintImp.{nm}"] = QintImp.__dict__[nm]
    for nm in ("add", "sub", "mul", "gt", "eq", "integer_part"):
        named[f"QfixedImp.{nm}"] = QfixedImp.__dict__[nm]
    for nm in ("fill", "crop", "shift_left", "shift_right", "bitwise_not"):
        named[f"Qtype.{nm}"] = Qtype.__dict__[nm]
    for nm in ("visit_If", "visit_For", "visit_AugAssign", "visit_Subscript", "visit_Assign", "visit_BinOp", "visit_Call"):
        named[f"ASTRewriter.{nm}"] = ASTRewriter.__dict__[nm]
    named["ConstantFolder.visit_BinOp"] = ConstantFolder.__dict__["visit_BinOp"]
    named["ReplaceMultiTargetAssign.visit_Assign"] = ReplaceMultiTargetAssign.__dict__["visit_Assign"]
    named["translate_expression"] = t_expression.translate_expression
    named["translate_statement"] = t_statement.translate_statement
    reach.install(named)


def _profiles():
    from qlasskit.boolopt.bool_optimizer import defaultOptimizer, fastOptimizer

    return [("default", defaultOptimizer), ("fast", fastOptimizer)]


def check(case):
    from qlasskit import qlassf

    tier_limit = 12
    args, ret, src = case["args"], case["ret"], case["src"]
    n = progsem.arg_bits(args)
    rng = random.Random(hash(src) & 0xFFFF)
    sp = make_space(n, limit=tier_limit, rng=random.Random(len(src)))
    cnt, fails, cov = {}, [], [f"stream:{case.get('stream')}"] + [f"f:{x}" for x in case.get("feat", [])]
    accepted = {}
    for pname, prof in _profiles():
        try:
            qf = qlassf(src, to_compile=False, bool_optimizer=prof)
            accepted[pname] = qf
        except Exception as e:
            cnt[f"rejected:{type(e).__name__}"] = cnt.get(f"rejected:{type(e).__name__}", 0) + 1
    if not accepted:
        return {"status": "rejected", "key": src, "counters": cnt, "cov": cov}
    if len(accepted) == 1:
        fails.append({"kind": "profile_dependent_acceptance", "msg": f"accepted only under {list(accepted)}", "pred": None})
    cnt["accepted"] = 1
    # reference
    try:
        rt = progsem.ref_table(src, args, ret, sp)
    except refsem.Unsupported as e:
        cnt["ref_unsupported"] = 1
        return {"status": "skipped", "key": src, "counters": cnt, "cov": cov}
    except SyntaxError:
        return {"status": "skipped", "key": src, "counters": cnt, "cov": cov}
    cnt["rows_exact"] = rt.exact_rows
    cnt["rows_flagged"] = rt.flagged
    cnt["rows_undefined"] = rt.undefined
    if rt.illtyped:
        cnt["illtyped_for_python_but_accepted"] = 1
    nontrivial = False
    for pname, qf in accepted.items():
        # signature sanity (feeds every other check)
        lib_n = sum(len(a.bitvec) for a in qf.args)
        if lib_n != n or len(qf.returns.bitvec) != codec.size(ret):
            fails.append({"kind": "signature", "msg": f"{pname}: library sees {lib_n} argument bits / {len(qf.returns.bitvec)} return bits, annotations say {n} / {codec.size(ret)}", "pred": None})
            continue
        tabs, probs = progsem.lib_tables(qf, sp)
        for kind, msg in probs:
            fails.append({"kind": kind, "msg": f"{pname}: {msg}", "pred": None})
        if tabs is None:
            continue
        for j, t in enumerate(tabs):
            if t is None:
                continue
            if t not in (0, sp.ALL):
                nontrivial = True
            d = (t ^ rt.exp[j]) & rt.req[j]
            if d:
                k = sp.first(d)
                row = sp.row(k)
                pred = "c01_mod_nonliteral" if case.get("tag") in ("modvar", "modvar_const") else None
                fails.append({"kind": "value", "msg": f"{pname}: return bit {j} is {(t >> k) & 1} but Python gives {(rt.exp[j] >> k) & 1} for {progsem.describe_row(args, row)}"
                              f" ({sp.popcount(d)} of {sp.N} rows differ)", "pred": pred, "witness": {"row": row, "bit": j}})
                break
        # truth_table() is an observable of C01 too
        if n <= 8 and n + len(qf.returns.bitvec) <= 20 and pname == "default":
            try:
                tt = qf.truth_table()
                ok, msg, nrows = check_truth_table(qf, tt, tabs, sp, n)
                cnt["truth_table_rows"] = cnt.get("truth_table_rows", 0) + nrows
                if not ok:
                    fails.append({"kind": "truth_table", "msg": f"{pname}: {msg}", "pred": None})
            except Exception as e:
                fails.append({"kind": "truth_table_exception", "msg": f"{pname}: truth_table() raised {type(e).__name__}: {e}", "pred": None})
    from ..monitors import reach

    cnt.update(reach.take())
    if case.get("stream") == "outside" and not fails:
        cnt["outside_accepted_and_agreeing"] = 1
    return {"status": "checked", "key": src, "nontrivial": nontrivial and bool(case.get("feat")), "evals": sp.N * len(accepted), "fails": fails[:4], "counters": cnt, "cov": cov,
            "sample": src}


def check_truth_table(qf, tt, tabs, sp, n):
    """each reported row lists the argument bits then the return bits; all 2^n rows must appear once"""
    seen = set()
    nret = len(qf.returns.bitvec)
    for row in tt:
        if len(row) != n + nret:
            return False, f"row has {len(row)} entries, expected {n}+{nret}", 0
        ins = [bool(x) for x in row[:n]]
        idx = sum((1 << i) for i, b in enumerate(ins) if b)
        if idx in seen:
            return False, f"input row {ins} reported twice", 0
        seen.add(idx)
        if sp.exhaustive:
            for j in range(nret):
                v = row[n + j]
                if v is True or v is False or str(v) in ("True", "False"):
                    got = 1 if str(v) == "True" else 0
                else:
                    return False, f"non-constant entry {v} in truth table row for inputs {ins}", 0
                if tabs[j] is not None and got != (tabs[j] >> idx) & 1:
                    return False, f"truth_table() reports return bit {j} = {got} for inputs {ins}, the expression list evaluates to {(tabs[j] >> idx) & 1}", 0
    if len(seen) != (1 << n):
        return False, f"{len(seen)} distinct rows, expected {1 << n}", 0
    return True, "", len(tt)
