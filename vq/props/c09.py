"""C09 — type codecs are exact and mutually inverse (section 5.9)."""
import random
from typing import Tuple, get_args

ID = "C09"
LEVEL = "exploration"
RULE = (
    "case = (shipped type, chunk of <=1024 bit patterns) enumerated exhaustively for every Qint/Qfixed/Qchar type, "
    "plus nested Tuple/Qlist/Qmatrix types (exhaustive <=12 bits, boundary+random beyond) and const_to_qtype sweeps; "
    "non-trivial = the chunk contains >=1 pattern with a set bit; distinct by (type, chunk)"
)
DECIDING = ["roundtrip_checked", "const_checked", "amplitudes_checked", "nested_checked", "const_to_qtype_checked"]
ASSUMPTIONS = [
    "documented encodings: Qint/Qchar little-endian unsigned, Qfixed = integer bits LSB-first then fractional bits MSB-first",
    "measured-string convention: character -1-k of the string is bit k",
]
EXHAUSTIVE = {"quick": True, "thorough": True}
CHUNK = 1024


def _types():
    from qlasskit import types as T

    return list(T.QINT_TYPES) + list(T.QFIXED_TYPES) + [T.Qchar]


def cases(tier, seed):
    from qlasskit import types as T

    for t in _types():
        w = t.BIT_SIZE
        for lo in range(0, 1 << w, CHUNK):
            yield {"kind": "flat", "type": t.__name__, "lo": lo, "hi": min(1 << w, lo + CHUNK)}
    # nested types
    rng = random.Random(1000 + seed)
    elems = ["bool", "Qint2", "Qint3", "Qint4", "Qfixed1_2", "Qfixed2_2", "Qfixed1_3", "Qint5", "Qchar", "Qfixed2_3", "Qint8", "Qfixed4_4"]
    shapes = []
    # deterministic corpus
    shapes += [["bool", "bool"], ["Qint2", "bool"], ["bool", "Qint2"], ["Qint2", "Qint4"], ["Qint4", "Qint2"],
               ["Qfixed1_2", "Qint2"], ["Qint3", "Qfixed2_2", "bool"], [["bool", "Qint2"], "Qint2"],
               ["Qint2", ["Qint3", "bool"]], [["Qint2", "Qint2"], ["Qint2", "Qint2"]], ["Qchar", "bool"],
               ["Qint2"] * 3, ["bool"] * 5, [["Qint2"] * 2] * 2, [["bool"] * 3] * 2, [[["bool", "Qint2"], "Qint3"], "bool"],
               ["Qint8", "Qint4"], ["Qfixed4_4", "Qint2"], ["Qint12", "bool"], ["Qint16", "Qint2"]]
    n_rand = 30 if tier == "quick" else 300

    def rshape(d):
        k = rng.randint(1, 3)
        out = []
        for _ in range(k):
            if d < 2 and rng.random() < 0.3:
                out.append(rshape(d + 1))
            else:
                out.append(rng.choice(elems))
        return out

    for _ in range(n_rand):
        shapes.append(rshape(0))
    for i, sh in enumerate(shapes):
        yield {"kind": "nested", "shape": sh, "rseed": seed * 7919 + i}
    for lo in range(0, 1 << 16, 8192):
        yield {"kind": "ctq_int", "lo": lo, "hi": lo + 8192}
    yield {"kind": "ctq_misc", "rseed": seed}


# ---------------- independent codec model ----------------
def spec_value(tname, bits):
    if tname == "bool":
        return bool(bits[0])
    if tname.startswith("Qint"):
        return sum((1 << k) for k, b in enumerate(bits) if b)
    if tname == "Qchar":
        return chr(sum((1 << k) for k, b in enumerate(bits) if b))
    if tname.startswith("Qfixed"):
        i, f = tname[6:].split("_")
        i, f = int(i), int(f)
        v = sum((1 << k) for k, b in enumerate(bits[:i]) if b)
        fr = sum(2.0 ** (-(k + 1)) for k, b in enumerate(bits[i:]) if b)
        return v + fr
    raise ValueError(tname)


def spec_size(sh):
    if isinstance(sh, list):
        return sum(spec_size(x) for x in sh)
    if sh == "bool":
        return 1
    if sh == "Qchar":
        return 8
    if sh.startswith("Qint"):
        return int(sh[4:])
    i, f = sh[6:].split("_")
    return int(i) + int(f)


def spec_decode(sh, bits):
    if isinstance(sh, list):
        out, p = [], 0
        for x in sh:
            n = spec_size(x)
            out.append(spec_decode(x, bits[p:p + n]))
            p += n
        return tuple(out)
    return spec_value(sh, bits)


def real_type(sh):
    from qlasskit import types as T

    if isinstance(sh, list):
        return Tuple[tuple(real_type(x) for x in sh)]
    if sh == "bool":
        return bool
    return getattr(T, sh)


def _eqv(a, b):
    if isinstance(a, tuple) or isinstance(b, tuple):
        return isinstance(a, tuple) and isinstance(b, tuple) and len(a) == len(b) and all(_eqv(x, y) for x, y in zip(a, b))
    if isinstance(b, bool) or isinstance(a, bool):
        return bool(a) == bool(b) and isinstance(a, (bool,)) == isinstance(b, (bool,))
    if isinstance(b, str):
        return str(a) == b
    if isinstance(b, float):
        return abs(float(a) - b) < 1e-12
    return a == b


def check(case):
    return globals()["check_" + case["kind"]](case)


def check_flat(case):
    from qlasskit import types as T

    t = getattr(T, case["type"])
    w = t.BIT_SIZE
    fails = []
    cnt = {"roundtrip_checked": 0, "const_checked": 0, "amplitudes_checked": 0, "bin_checked": 0, "value_checked": 0}

    def fail(kind, p, msg):
        if len(fails) < 5:
            fails.append({"kind": kind, "msg": f"{case['type']} pattern(LSB first)={''.join('1' if b else '0' for b in p)}: {msg}", "pred": None})

    for n in range(case["lo"], case["hi"]):
        p = [bool((n >> k) & 1) for k in range(w)]
        try:
            v = t.from_bool(list(p))
            # value (documented encoding)
            sv = spec_value(case["type"], p)
            cnt["value_checked"] += 1
            if not _eqv(v, sv) or not _eqv(getattr(v, "value", v), sv):
                fail("decode_value", p, f"from_bool gives {v!r} (value attr {getattr(v, 'value', None)!r}), documented encoding means {sv!r}")
            back = list(v.to_bool())
            cnt["roundtrip_checked"] += 1
            if [bool(x) for x in back] != p or len(back) != w:
                fail("roundtrip", p, f"from_bool -> {v!r} -> to_bool gives {back}")
            # runtime encoding of a freshly constructed value
            enc = list(t(sv).to_bool())
            if [bool(x) for x in enc] != p:
                fail("encode", p, f"{case['type']}({sv!r}).to_bool() = {enc}")
            # const
            ct, cb = t.const(sv)
            cnt["const_checked"] += 1
            if ct is not t or [bool(x) for x in cb] != p or len(cb) != w:
                fail("const", p, f"const({sv!r}) = ({getattr(ct, '__name__', ct)}, {cb})")
            # constants outside the canonical range: the compile-time encoding still equals the runtime encoding of the same value
            if case["type"].startswith("Qint") and n % 5 == 0:
                for k in (-3, -2, -1, 1, 2):
                    ov = sv + k * (1 << w)
                    ct2, cb2 = t.const(ov)
                    rt2 = list(t(ov).to_bool())
                    cnt["const_out_of_range_checked"] = cnt.get("const_out_of_range_checked", 0) + 1
                    if [bool(x) for x in cb2] != [bool(x) for x in rt2] or len(cb2) != w:
                        fail("const_out_of_range", p, f"const({ov}) = {cb2} but {case['type']}({ov}).to_bool() = {rt2}")
            # to_bin / from_bin
            sb = v.to_bin()
            cnt["bin_checked"] += 1
            if sb != "".join("1" if b else "0" for b in p):
                fail("to_bin", p, f"to_bin = {sb!r}")
            v2 = t.from_bin("".join("1" if b else "0" for b in p))
            if not _eqv(v2, sv):
                fail("from_bin", p, f"from_bin = {v2!r}")
            # amplitudes
            if w <= 12 or n % 257 == 0:
                am = v.to_amplitudes()
                cnt["amplitudes_checked"] += 1
                hot = [k for k, a in enumerate(am) if a != 0]
                if len(am) != (1 << w) or hot != [n] or am[n] != 1:
                    fail("amplitudes", p, f"one-hot at {hot[:4]} (len {len(am)}), expected index {n}")
                if v.export("amplitudes") != am or v.export("binary") != sb:
                    fail("export", p, "export() differs from to_amplitudes()/to_bin()")
        except Exception as e:
            fail("exception", p, f"{type(e).__name__}: {e}")
    return {
        "status": "checked", "key": f"{case['type']}:{case['lo']}", "nontrivial": case["hi"] - case["lo"] > 1 or case["lo"] > 0,
        "evals": case["hi"] - case["lo"], "fails": fails, "counters": cnt, "cov": [f"type:{case['type']}"],
        "sample": f"{case['type']} patterns [{case['lo']},{case['hi']})" if case["lo"] == 0 else None,
    }


def check_nested(case):
    from qlasskit.types import interpret_as_qtype

    sh = case["shape"]
    n = spec_size(sh)
    rt = real_type(sh)
    rng = random.Random(case["rseed"])
    if n <= 12:
        pats = range(1 << n)
    else:
        s = {0, (1 << n) - 1}
        for k in range(n):
            s.add(1 << k)
            s.add(((1 << n) - 1) ^ (1 << k))
        while len(s) < 600:
            s.add(rng.getrandbits(n))
        pats = sorted(s)
    fails = []
    cnt = {"nested_checked": 0}
    for v in pats:
        bits = [bool((v >> k) & 1) for k in range(n)]
        if "Qchar" in str(sh):
            pass
        exp = spec_decode(sh, bits)
        s = "".join("1" if b else "0" for b in bits)[::-1]
        forms = [("str", s), ("list", [c == "1" for c in s])]
        if bits[n - 1]:  # the int form cannot carry leading zeros of the string
            forms.append(("int", int(s, 2)))
        for fname, form in forms:
            try:
                got = interpret_as_qtype(form, rt, n)
                cnt["nested_checked"] += 1
                if not _eqv(got, exp):
                    if len(fails) < 5:
                        fails.append({"kind": "interpret_as_qtype", "msg": f"shape {sh} string {s!r} as {fname}: got {got!r}, element encodings spell {exp!r}", "pred": None})
            except Exception as e:
                if len(fails) < 5:
                    fails.append({"kind": "interpret_exception", "msg": f"shape {sh} string {s!r} as {fname}: {type(e).__name__}: {e}", "pred": None})
    return {"status": "checked", "key": f"nested:{sh}", "nontrivial": True, "evals": len(pats), "fails": fails, "counters": cnt,
            "cov": [f"nested_bits:{n}", f"nested_depth:{_depth(sh)}"], "sample": f"interpret_as_qtype over Tuple shape {sh} ({len(pats)} patterns)"}


def _depth(sh):
    return 1 + max((_depth(x) for x in sh if isinstance(x, list)), default=0) if isinstance(sh, list) else 0


def check_ctq_int(case):
    from qlasskit.types import const_to_qtype

    fails = []
    cnt = {"const_to_qtype_checked": 0}
    for v in range(case["lo"], case["hi"]):
        try:
            t, bits = const_to_qtype(v)
            cnt["const_to_qtype_checked"] += 1
            w = t.BIT_SIZE
            ok = t.__name__.startswith("Qint") and len(bits) == w and v < (1 << w) and sum((1 << k) for k, b in enumerate(bits) if b) == v
            if not ok and len(fails) < 5:
                fails.append({"kind": "const_to_qtype", "msg": f"const_to_qtype({v}) = ({t.__name__}, {bits}) cannot hold / does not spell the value", "pred": None})
        except Exception as e:
            if len(fails) < 5:
                fails.append({"kind": "const_to_qtype_exception", "msg": f"const_to_qtype({v}): {type(e).__name__}: {e}", "pred": None})
    return {"status": "checked", "key": f"ctq:{case['lo']}", "nontrivial": True, "evals": case["hi"] - case["lo"], "fails": fails, "counters": cnt, "cov": ["ctq_int"]}


def check_ctq_misc(case):
    from qlasskit import types as T
    from qlasskit.types import const_to_qtype

    fails = []
    cnt = {"const_to_qtype_checked": 0}
    for c in [chr(i) for i in range(1, 256)]:
        t, bits = const_to_qtype(c)
        cnt["const_to_qtype_checked"] += 1
        if t is not T.Qchar or len(bits) != 8 or sum((1 << k) for k, b in enumerate(bits) if b) != ord(c):
            fails.append({"kind": "const_to_qtype_char", "msg": f"const_to_qtype({c!r}) = ({t}, {bits})", "pred": None})
    # floats exactly representable in some shipped Qfixed type
    rng = random.Random(case["rseed"])
    vals = set()
    for t in T.QFIXED_TYPES:
        for _ in range(40):
            n = rng.getrandbits(t.BIT_SIZE)
            p = [bool((n >> k) & 1) for k in range(t.BIT_SIZE)]
            vals.add(spec_value(t.__name__, p))
    for v in sorted(vals):
        try:
            t, bits = const_to_qtype(float(v))
            cnt["const_to_qtype_checked"] += 1
            got = spec_value(t.__name__, [bool(b) for b in bits])
            if not t.__name__.startswith("Qfixed") or len(bits) != t.BIT_SIZE or abs(got - v) >= 0.05:
                fails.append({"kind": "const_to_qtype_float", "msg": f"const_to_qtype({v}) = ({t.__name__}, {bits}) spells {got}", "pred": None})
        except Exception as e:
            fails.append({"kind": "const_to_qtype_float_exception", "msg": f"const_to_qtype({v}): {type(e).__name__}: {e}", "pred": None})
    return {"status": "checked", "key": "ctq:misc", "nontrivial": True, "evals": 255 + len(vals), "fails": fails[:5], "counters": cnt, "cov": ["ctq_misc"]}
