"""Shared: run the reference on every input row of a program case and tabulate expected return bits."""
from ..oracles import boolvec, codec, refsem
from ..oracles.space import make_space


class RefTable:
    """exp[j], req[j]: truth tables (ints over sp) of expected return bit j and of 'row is judged for bit j'"""

    def __init__(self):
        self.exp = []
        self.req = []
        self.defined = 0
        self.undefined = 0
        self.flagged = 0
        self.exact_rows = 0
        self.illtyped = False
        self.mixed_fixed = False
        self.values = {}


def arg_bits(args):
    return sum(codec.size(t) for _, t in args)


def decode_row(args, row):
    vals, p = [], 0
    for _, t in args:
        n = codec.size(t)
        bits = [(row >> (p + k)) & 1 for k in range(n)]
        vals.append(codec.decode(t, bits))
        p += n
    return vals


def ref_table(src, args, ret, sp, extra=None, fname=None, kwargs=None, keep_values=False):
    """raises refsem.Unsupported when the reference cannot model the program"""
    fn = refsem.make_ref(src, extra=extra, fname=fname)
    nret = codec.size(ret)
    rt = RefTable()
    exp = [0] * nret
    req = [0] * nret
    typeerrs = 0
    for k, row in enumerate(sp.iter_rows()):
        vals = decode_row(args, row)
        st = refsem.reset()
        try:
            targs = [refsem.lift(t, v) for (_, t), v in zip(args, vals)]
            st.ovf = False
            st.minw = 99
            if callable(kwargs):
                kw = kwargs()
                kw.update({nm: tv for (nm, _), tv in zip(args, targs)})
                res = fn(**kw)
            else:
                res = fn(*targs, **(kwargs or {}))
            if st.doubt:
                rt.undefined += 1
                continue
            bits = refsem.judge(ret, res, st)
        except refsem.Unsupported:
            raise
        except TypeError:
            typeerrs += 1
            rt.undefined += 1
            continue
        except (refsem.Undefined, IndexError, ZeroDivisionError, ValueError, OverflowError, AttributeError):
            rt.undefined += 1
            continue
        rt.defined += 1
        if st.mixed_fixed:
            rt.mixed_fixed = True
        if st.ovf:
            rt.flagged += 1
        else:
            rt.exact_rows += 1
        bit = 1 << k
        for j, (b, r) in enumerate(bits):
            if b:
                exp[j] |= bit
            if r:
                req[j] |= bit
        if keep_values:
            rt.values[row] = res
    rt.exp, rt.req = exp, req
    rt.illtyped = typeerrs == sp.N
    return rt


def lib_tables(qf, sp):
    """Evaluate the library's expression list: -> (ret tables list, problems list)"""
    names = [b for a in qf.args for b in a.bitvec]
    probs = []
    try:
        env = boolvec.eval_list(qf.expressions, names, sp)
    except boolvec.FreeSymbol as fs:
        return None, [("free_symbol", f"expression list uses symbol {fs} that is neither an argument bit nor defined earlier")]
    out = []
    defined = {(s.name if hasattr(s, "name") else str(s)) for s, e in qf.expressions}
    for r in qf.returns.bitvec:
        if r not in defined:
            probs.append(("ret_missing", f"return bit {r} has no definition in the expression list (defined: {sorted(defined)[-6:]})"))
            out.append(None)
        else:
            out.append(env[r])
    return out, probs


def describe_row(args, row):
    vals = decode_row(args, row)
    return ", ".join(f"{n}={v!r}" for (n, _), v in zip(args, vals))
