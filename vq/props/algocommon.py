"""Shared by C15/C16: black-box health (C02/C03/C06 monitors on the algorithm's own oracle) and helpers."""
from ..oracles import boolvec, revsim
from ..oracles.space import Space
from . import c03 as C03
from . import compilecheck as CC


def compile_qf(src, **kw):
    from qlasskit import qlassf

    CC.install()
    CC.reset()
    qf = qlassf(src, to_compile=True, **kw)
    log = dict(CC.LOG)
    return qf, log


def health(qf, log):
    """-> (status, pred, text).  status: 'clean' | 'wrong' | 'dirty'; pred: known-finding predicate of the root cause or None"""
    qc = qf.circuit()
    names = [b for a in qf.args for b in a.bitvec]
    rets = list(qf.returns.bitvec)
    n = len(names)
    if n > 10 or any(not revsim.is_classical(g) for g, w, p in qc.gates):
        return "unknown", None, "not simulated"
    CC.LOG.clear()
    CC.LOG.update(log)
    single = len(rets) == 1 and rets[0] in qc.qubit_map
    if single:
        out = qc.qubit_map[rets[0]]
        sp = Space(n + 1)
        o = CC.observe(qc, names, rets, list(qf.expressions), sp=sp, y_qubit=out)
        preset = {out: sp.var(n)}
    else:
        sp = Space(n)
        o = CC.observe(qc, names, rets, list(qf.expressions), sp=sp)
        preset = None
    if o.ret_unmapped:
        return "wrong", None, f"return bits unmapped {o.ret_unmapped}"
    if o.wrong_out:
        # is it the in-place negation finding?  (counterfactual on the same source is done by the caller if needed)
        return "wrong", "c02_inplace_not_clobbers_operand_maybe", f"wrong output {o.wrong_out[:1]}"
    if o.dirty:
        devs = CC.forensics(qc, n, sp=sp, preset=preset)
        pred, cls = C03.attribute(devs)
        if [x for x in CC.LOG.get("inv_fails", []) if not (single and x[2] == out)]:
            pred = "c03_inline_uncompute_stale_control" if CC.LOG.get("inv_class") == "inline-stale-control" else None
        return "dirty", pred, f"{len(o.dirty)} qubits not restored (first deviation class {cls})"
    return "clean", None, ""


def blame_wrong(src, kw):
    """counterfactual for a wrong black box: does it become right without compile_not's in-place branch?"""
    from qlasskit import qlassf

    CC.install_counterfactual()
    CC.COUNTERFACTUAL["no_inplace_not"] = True
    try:
        qf2 = qlassf(src, to_compile=True, **kw)
        names = [b for a in qf2.args for b in a.bitvec]
        o2 = CC.observe(qf2.circuit(), names, list(qf2.returns.bitvec), list(qf2.expressions))
        if not o2.wrong_out and not o2.ret_unmapped:
            return "c02_inplace_not_clobbers_operand"
    except Exception:
        pass
    finally:
        CC.COUNTERFACTUAL["no_inplace_not"] = False
    return None


def ideal_oracle(qf, truth):
    """Replace qf's circuit by an ideal clean xor-oracle for the boolean function `truth` (list over inputs)."""
    from qlasskit.qcircuit import QCircuit

    n = sum(len(a.bitvec) for a in qf.args)
    qc = QCircuit(n + 1, name=qf.name)
    for i, a in enumerate([b for a in qf.args for b in a.bitvec]):
        qc.qubit_map.pop(f"q{i}", None)
        qc.qubit_map[a] = i
    qc.qubit_map.pop(f"q{n}", None)
    qc.qubit_map["_ret"] = n
    for x, v in enumerate(truth):
        if not v:
            continue
        zeros = [i for i in range(n) if not (x >> i) & 1]
        for z in zeros:
            qc.x(z)
        qc.mcx(list(range(n)), n)
        for z in zeros:
            qc.x(z)
    qf._qcircuit = qc
    return qf
