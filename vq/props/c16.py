"""C16 — Deutsch-Jozsa, Bernstein-Vazirani, Simon circuits meet textbook guarantees (section 5.16)."""
import itertools
import random

import numpy as np

from ..oracles import codec, sparsevec
from . import algocommon as A

ID = "C16"
LEVEL = "exploration"
RULE = (
    "case = one black box: every constant and every balanced boolean function on 1..3 bits (samples on 4) in >=2 syntactic forms for Deutsch-Jozsa; every "
    "secret on 1..5 bits through secret_oracle and hand-written xor forms for Bernstein-Vazirani; every period on 2..4 bits with several two-to-one functions "
    "(lookup tables with random coset labelling, conditional-xor forms) for Simon; exact output distribution of the algorithm circuit by sparse state-vector "
    "simulation, decoded outputs compared in the argument type; non-trivial = the black box depends on its input (or is one of the two constants); distinct by case"
)
DECIDING = ["decode_counts_checked", "decode_counts_discard_checked", "dj_checked", "bv_checked", "simon_checked", "decode_checked"]
ASSUMPTIONS = ["own sparse state-vector simulator", "a black box that already fails the C02/C03/C06 monitors is blamed on that root cause (DESIGN 4.5)"]
CASE_TIMEOUT = {"quick": 60, "thorough": 180}


def cases(tier, seed):
    rng = random.Random(16000 + seed)
    # Deutsch-Jozsa
    for n in (1, 2, 3):
        N = 1 << n
        yield {"algo": "dj", "n": n, "truth": [0] * N}
        yield {"algo": "dj", "n": n, "truth": [1] * N}
        bal = [c for c in itertools.combinations(range(N), N // 2)]
        for ones in bal:
            yield {"algo": "dj", "n": n, "truth": [1 if x in ones else 0 for x in range(N)]}
    for _ in range(12 if tier == "quick" else 150):
        ones = rng.sample(range(16), 8)
        yield {"algo": "dj", "n": 4, "truth": [1 if x in ones else 0 for x in range(16)]}
    # balanced by construction: one input bit xor-ed with a nested compound of the others (the compiler then allocates the
    # result qubit before some ancilla, so it is not the last qubit)
    comps = ["(a[{1}] or (a[{2}] and a[{3}]))", "(a[{1}] and (a[{2}] or a[{3}]))", "((a[{1}] and a[{2}]) or (a[{2}] and not a[{3}]))", "(a[{1}] or a[{2}])", "((a[{1}] ^ a[{2}]) and a[{3}])"]
    for n in (3, 4):
        for k, tmpl in enumerate(comps):
            ix = list(range(n))
            rng.shuffle(ix)
            ix = (ix * 2)[:4]
            body = tmpl.format(*ix)
            expr = f"a[{ix[0]}] ^ {body}" if k % 2 == 0 else f"{body} ^ a[{ix[0]}]"
            if str(ix[0]) in [c for c in body if c.isdigit()]:
                continue
            truth = []
            for x in range(1 << n):
                a = [bool((x >> i) & 1) for i in range(n)]  # noqa: F841
                truth.append(1 if eval(expr.replace("^", "!="), {"a": a}) else 0)
            yield {"algo": "dj", "n": n, "truth": truth, "extra_form": f"def f(a: Qint[{n}]) -> bool:\n    return {expr}\n"}
    yield {"algo": "dj", "n": 4, "truth": [0] * 16}
    yield {"algo": "dj", "n": 4, "truth": [1] * 16}
    # Bernstein-Vazirani
    for n in range(1, 6):
        for s in range(1 << n):
            yield {"algo": "bv", "n": n, "s": s}
    # Simon
    for n in (2, 3, 4):
        for s in range(1, 1 << n):
            for r in range(2 if tier == "quick" else 6):
                yield {"algo": "simon", "n": n, "s": s, "r": r}


def dnf(truth, n, var=lambda i: f"a[{i}]"):
    terms = []
    for x, v in enumerate(truth):
        if v:
            terms.append("(" + " and ".join((var(i) if (x >> i) & 1 else f"not {var(i)}") for i in range(n)) + ")")
    return " or ".join(terms) if terms else "False"


def dj_forms(n, truth):
    N = 1 << n
    out = []
    if n == 1:
        body = {(0, 0): "False", (1, 1): "True", (0, 1): "a", (1, 0): "not a"}[(truth[0], truth[1])]
        out.append(("bool", f"def f(a: bool) -> bool:\n    return {body}\n", "bool"))
        out.append(("bool_dnf", f"def f(a: bool) -> bool:\n    return {dnf(truth, 1, lambda i: 'a') if any(truth) else 'False'}\n", "bool"))
        return out
    if all(truth) or not any(truth):
        out.append(("const", f"def f(a: Qint[{n}]) -> bool:\n    return {'True' if truth[0] else 'False'}\n", f"Qint{n}"))
        out.append(("const_taut", f"def f(a: Qint[{n}]) -> bool:\n    return {'(a[0] or not a[0])' if truth[0] else '(a[0] and not a[0])'}\n", f"Qint{n}"))
        return out
    out.append(("dnf", f"def f(a: Qint[{n}]) -> bool:\n    return {dnf(truth, n)}\n", f"Qint{n}"))
    tt = "Tuple[" + ", ".join(["bool"] * n) + "]"
    out.append(("tuple_dnf", f"def f(a: {tt}) -> bool:\n    return {dnf(truth, n)}\n", ["bool"] * n))
    if n <= 3:
        tab = ", ".join(str(v) for v in truth)
        out.append(("lookup", f"def f(a: Qint[{n}]) -> bool:\n    l = [{tab}]\n    return l[a] == 1\n", f"Qint{n}"))
    neg = [1 - v for v in truth]
    out.append(("not_dnf", f"def f(a: Qint[{n}]) -> bool:\n    return not ({dnf(neg, n)})\n", f"Qint{n}"))
    return out


def bv_forms(n, s):
    out = []
    if n >= 2:
        out.append(("secret_oracle", None, f"Qint{n}"))
        bits = [i for i in range(n) if (s >> i) & 1]
        body = " ^ ".join(f"x[{i}]" for i in bits) if bits else "False"
        out.append(("xor_bits", f"def f(x: Qint[{n}]) -> bool:\n    return {body}\n", f"Qint{n}"))
        if bits:
            body2 = "r = False\n" + "".join(f"    r = r ^ x[{i}]\n" for i in bits)
            out.append(("xor_stmts", f"def f(x: Qint[{n}]) -> bool:\n    {body2}    return r\n", f"Qint{n}"))
    else:
        out.append(("bool", f"def f(x: bool) -> bool:\n    return {'x' if s else 'False'}\n", "bool"))
    return out


def simon_forms(n, s, r, rng):
    N = 1 << n
    out = []
    j = [i for i in range(n) if (s >> i) & 1][r % bin(s).count("1")]
    out.append(("cond_xor", f"def f(a: Qint[{n}]) -> Qint[{n}]:\n    return (a ^ {s}) if a[{j}] else a\n", f"Qint{n}"))
    if n <= 3:
        labels = list(range(N))
        rng.shuffle(labels)
        tab, k = {}, 0
        for x in range(N):
            if x not in tab:
                tab[x] = tab[x ^ s] = labels[k]
                k += 1
        out.append(("lookup", f"def f(a: Qint[{n}]) -> Qint[{n}]:\n    l = [{', '.join(str(tab[x]) for x in range(N))}]\n    return l[a]\n", f"Qint{n}"))
    out.append(("stmt_if", f"def f(a: Qint[{n}]) -> Qint[{n}]:\n    b = a\n    if a[{j}]:\n        b = a ^ {s}\n    return b\n", f"Qint{n}"))
    # return type different from the argument type (the outcome is still an ARGUMENT-typed value)
    wider = {2: 4, 3: 5, 4: 6}[n]
    out.append(("wider_return", f"def f(a: Qint[{n}]) -> Qint[{wider}]:\n    return (a ^ {s}) if a[{j}] else a\n", f"Qint{n}"))
    if n == 3:
        labels = list(range(4))
        rng.shuffle(labels)
        tab, k = {}, 0
        for x in range(N):
            if x not in tab:
                tab[x] = tab[x ^ s] = labels[k]
                k += 1
        out.append(("narrower_return", f"def f(a: Qint[3]) -> Qint[2]:\n    l = [{', '.join(str(tab[x]) for x in range(N))}]\n    return l[a]\n", "Qint3"))
    if n in (2, 3):
        tt = "Tuple[" + ", ".join(["bool"] * n) + "]"
        mt = ", ".join(f"(a[{i}] ^ a[{j}])" if ((s >> i) & 1 and i != j) else (f"a[{i}]" if i != j else "False") for i in range(n))
        out.append(("tuple_arg", f"def f(a: {tt}) -> Qint[{n}]:\n    b = ({mt})\n    return {' + '.join(f'({1 << i} if b[{i}] else 0)' for i in range(n))}\n", ["bool"] * n))
    return out


def check(case):
    from qlasskit.algorithms import BernsteinVazirani, DeutschJozsa, Simon
    from qlasskit.algorithms.bernsteinvazirani import secret_oracle

    algo, n = case["algo"], case["n"]
    rng = random.Random(str(case))
    fails, cnt, formsok = [], {}, []
    N = 1 << n

    def fail(kind, msg, pred=None):
        if len(fails) < 6:
            fails.append({"kind": kind, "msg": f"{msg} ({case})", "pred": pred})

    if algo == "dj":
        forms = dj_forms(n, case["truth"])
        if case.get("extra_form"):
            forms.append(("xor_compound", case["extra_form"], f"Qint{n}"))
    elif algo == "bv":
        forms = bv_forms(n, case["s"])
    else:
        forms = simon_forms(n, case["s"], case["r"], rng)
    for fname, src, argt in forms:
        try:
            if src is None:
                from . import compilecheck as CC

                CC.install()
                CC.reset()
                qf = secret_oracle(n, case["s"])
                log = dict(CC.LOG)
                src_for_blame = None
            else:
                qf, log = A.compile_qf(src)
                src_for_blame = src
        except Exception as e:
            cnt[f"form_rejected:{fname}"] = 1
            continue
        try:
            hstat, hpred, htext = A.health(qf, log)
            if hstat == "wrong":
                hpred = A.blame_wrong(src_for_blame, {}) if src_for_blame else None
            blame = hpred if hstat in ("wrong", "dirty") else None
            if hstat in ("wrong", "dirty"):
                cnt["unhealthy_black_boxes"] = cnt.get("unhealthy_black_boxes", 0) + 1
            alg = {"dj": DeutschJozsa, "bv": BernsteinVazirani, "simon": Simon}[algo](qf)
            qc = alg.circuit()
            st = sparsevec.run(qc.gates, qc.num_qubits)
            dist = sparsevec.marginal(st, list(alg.output_qubits))
        except Exception as e:
            fail(f"{algo}_exception", f"form {fname}: {type(e).__name__}: {e}")
            continue
        formsok.append(fname)
        if len(dist) != N or abs(dist.sum() - 1) > 1e-9:
            fail(f"{algo}_distribution", f"form {fname}: distribution over {len(dist)} outcomes sums to {dist.sum()}", blame)
            continue

        def reading(y):
            return "".join(str((y >> i) & 1) for i in range(n))[::-1]

        def decoded(y):
            cnt["decode_checked"] = cnt.get("decode_checked", 0) + 1
            r = alg.decode_output(reading(y))
            # a string measured on all qubits carries the other qubits in front of the register
            extra = qc.num_qubits - n
            full = "".join(rng.choice("01") for _ in range(extra)) + reading(y)
            r2 = alg.decode_output(full)
            if str(r2) != str(r):
                fail(f"{algo}_decode_full_string", f"form {fname}: decode_output({full!r}) = {r2!r} but decode_output({reading(y)!r}) = {r!r}")
            return r

        # decode_counts over whole-register measurements: the other qubits (the |-> result qubit, ancillas) split every
        # outcome over several raw strings; the decoded counts are the image, and discard_lower applies to the decoded totals
        try:
            pr = np.abs(st.amp) ** 2
            nqa = qc.num_qubits
            raw = {}
            for ix, pz in zip(st.idx.tolist(), pr.tolist()):
                c = int(round(pz * 4096))
                if c > 0:
                    raw[format(ix, f"0{nqa}b")] = c
            if raw and nqa <= 40:
                img = {}
                for rs, c in raw.items():
                    v = alg.decode_output(rs)
                    img[v] = img.get(v, 0) + c
                got_all = alg.decode_counts(dict(raw))
                cnt["decode_counts_checked"] = cnt.get("decode_counts_checked", 0) + 1
                if got_all != img:
                    fail(f"{algo}_decode_counts", f"form {fname}: decode_counts over {len(raw)} raw strings = {got_all}, the image under decode_output is {img}")
                top_raw, top = max(raw.values()), max(img.values())
                for thr in sorted({top, (top_raw + top) // 2 + 1, top_raw + 1}):
                    if thr <= top:
                        got_t = alg.decode_counts(dict(raw), discard_lower=thr)
                        exp_t = {k: v for k, v in img.items() if v >= thr}
                        cnt["decode_counts_discard_checked"] = cnt.get("decode_counts_discard_checked", 0) + 1
                        if got_t != exp_t:
                            fail(f"{algo}_decode_counts_discard", f"form {fname}: decode_counts(discard_lower={thr}) = {got_t}; decoded totals are {img} (largest raw string count {top_raw})")
        except Exception as e:
            fail(f"{algo}_decode_counts_exception", f"form {fname}: {type(e).__name__}: {e}")

        def val_ok(got, y):
            expv = codec.decode(argt, [(y >> i) & 1 for i in range(n)])
            if isinstance(argt, list):
                return tuple(got) == tuple(expv)
            if argt == "bool":
                return isinstance(got, bool) and got == expv
            return int(got) == expv and type(got).__name__ == argt

        if algo == "dj":
            cnt["dj_checked"] = cnt.get("dj_checked", 0) + 1
            const = all(case["truth"]) or not any(case["truth"])
            if const and abs(dist[0] - 1) > 1e-9:
                fail("dj_constant", f"form {fname}: constant f but P(0..0) = {dist[0]:.6f} (black box {hstat} {htext})", blame)
            if not const and dist[0] > 1e-9:
                fail("dj_balanced", f"form {fname}: balanced f but P(0..0) = {dist[0]:.6f} (black box {hstat} {htext})", blame)
            try:
                if decoded(0) != "Constant":
                    fail("dj_decode", f"form {fname}: decode_output(all zeros) = {decoded(0)!r}")
                for y in range(1, N):
                    if dist[y] > 1e-12 and decoded(y) != "Balanced":
                        fail("dj_decode", f"form {fname}: decode_output({reading(y)!r}) = {decoded(y)!r}")
            except Exception as e:
                fail("dj_decode_exception", f"form {fname}: {type(e).__name__}: {e}")
        elif algo == "bv":
            cnt["bv_checked"] = cnt.get("bv_checked", 0) + 1
            s = case["s"]
            if abs(dist[s] - 1) > 1e-9:
                fail("bv_secret", f"form {fname}: P(s) = {dist[s]:.6f} for secret {s} (black box {hstat} {htext})", blame)
            try:
                got = decoded(s)
                if not val_ok(got, s):
                    fail("bv_decode", f"form {fname}: decode_output({reading(s)!r}) = {got!r}, the secret is {s} in {argt}")
            except Exception as e:
                fail("bv_decode_exception", f"form {fname}: {type(e).__name__}: {e}")
        else:
            cnt["simon_checked"] = cnt.get("simon_checked", 0) + 1
            s = case["s"]
            good = [y for y in range(N) if bin(y & s).count("1") % 2 == 0]
            for y in range(N):
                if dist[y] > 1e-12 and y not in good:
                    fail("simon_orthogonality", f"form {fname}: outcome y={y} has probability {dist[y]:.6f} but y.s = 1 for s={s} (black box {hstat} {htext})", blame)
                    break
            if max(abs(dist[y] - 1.0 / len(good)) for y in good) > 1e-9:
                fail("simon_uniformity", f"form {fname}: outcomes orthogonal to s={s} are not equally likely: {[round(float(dist[y]), 4) for y in good]} (black box {hstat} {htext})", blame)
            try:
                for y in good[:4]:
                    got = decoded(y)
                    if not val_ok(got, y):
                        fail("simon_decode", f"form {fname}: decode_output({reading(y)!r}) = {got!r}, outcome is {y} in {argt}")
            except Exception as e:
                fail("simon_decode_exception", f"form {fname}: {type(e).__name__}: {e}")
    nt = len(formsok) >= 1
    return {"status": "checked", "key": str(case), "nontrivial": nt, "evals": len(formsok), "fails": fails, "counters": cnt, "cov": [f"algo:{algo}", f"n:{n}"] + [f"form:{algo}:{f}" for f in formsok],
            "sample": dict(case, forms=formsok)}
