"""Operations of C10 histories: executed both inside a history and alone in a fresh interpreter."""
import ast
import json

SOURCES = {
    "and": "def f(a: bool, b: bool) -> bool:\n    return a and b\n",
    "and_other_body": "def f(a: bool, b: bool) -> bool:\n    return a or not b\n",
    "add": "def add(a: Qint[2], b: Qint[2]) -> Qint[2]:\n    return a + b\n",
    "cmp": "def test(a: Qint[2]) -> bool:\n    return a == 2\n",
    "cmp3": "def test(a: Qint[3]) -> bool:\n    return a == 5\n",
    "oracle_named": "def oracle(a: Qint[2]) -> bool:\n    return a == 1\n",
    "ident": "def g(a: Qint[2]) -> Qint[2]:\n    return a\n",
    "inc": "def g(a: Qint[2]) -> Qint[2]:\n    return a + 1\n",
    "xorbits": "def test(x: Qint[3]) -> bool:\n    return x[0] ^ x[2]\n",
    "balanced": "def test(x: Qint[2]) -> bool:\n    return x[0]\n",
    "const": "def test(x: Qint[2]) -> bool:\n    return False\n",
    "simon": "def test(a: Qint[2]) -> Qint[2]:\n    return (a ^ 3) if a[0] else a\n",
    "tuple": "def t(a: Tuple[Qint[2], bool]) -> Tuple[bool, Qint[2]]:\n    return (a[1], a[0] + 1)\n",
    "list": "def l(a: Qlist[Qint[2], 2]) -> Qint[2]:\n    return a[0] + a[1]\n",
    "caller_g": "def c(a: Qint[2], b: Qint[2]) -> Qint[2]:\n    return g(a) + g(b)\n",
    "caller_f": "def c2(x: bool, y: bool) -> bool:\n    return not f(x, y)\n",
    "param": "def p(c: Parameter[Qint[2]], a: Qint[2]) -> Qint[2]:\n    return a + c\n",
    "param2": "def p2(c: Parameter[bool], d: Parameter[Qint[2]], a: bool) -> Qint[2]:\n    return d if (a ^ c) else 1\n",
    "param_caller": "def pc(c: Parameter[Qint[2]], a: Qint[2]) -> Qint[2]:\n    return g(a) + c\n",
    "param_all": "def pa(c: Parameter[Qlist[bool, 3]], a: bool) -> bool:\n    return all(c) and a\n",
    "param_sum": "def ps(c: Parameter[Qlist[Qint[2], 2]], a: Qint[2]) -> Qint[2]:\n    return sum(c) + a\n",
    "param_any": "def pn(c: Parameter[Tuple[bool, bool]], a: bool) -> bool:\n    return any(c) ^ a\n",
    # user functions named after library globals / internals
    "shadow_flatten": "def flatten(a: bool, b: bool) -> bool:\n    return a ^ b\n",
    "shadow_to_quantum": "def to_quantum(a: Qint[2]) -> Qint[2]:\n    return a + 1\n",
    "shadow_translate_ast": "def translate_ast(a: bool) -> bool:\n    return not a\n",
    "shadow_ast2ast": "def ast2ast(a: bool, b: bool) -> bool:\n    return a and not b\n",
    "shadow_reduce": "def reduce(a: Qint[2]) -> bool:\n    return a > 1\n",
    "shadow_merge": "def merge_expressions(a: bool) -> bool:\n    return a\n",
    "shadow_Qint2": "def interpret_as_qtype(a: Qint[2]) -> Qint[2]:\n    return a ^ 1\n",
    "shadow_copy": "def copy(a: bool) -> bool:\n    return a\n",
    "shadow_inspect": "def inspect(a: bool) -> bool:\n    return not a\n",
    # functions named like attributes of the export framework's circuit class
    "named_h": "def h(a: bool, b: bool) -> bool:\n    return a and not b\n",
    "named_t": "def t(a: Qint[2]) -> bool:\n    return a == 1\n",
    "named_size": "def size(a: Qint[2]) -> Qint[2]:\n    return a + 1\n",
    # custom types handed in with types=[...]
    "ct_low": "def test(a: Qint10) -> bool:\n    return a[0] and not a[9]\n",
    "ct_bad": "def test(a: Qint10) -> bool:\n    return a[0] + undefined_name\n",
    "ct_narrow": "def test(a: Narrow) -> bool:\n    return a[0] ^ a[2]\n",
    "ct_narrow_bad": "def test(a: Narrow, b: bool) -> bool:\n    return a and b\n",
    # same name, same body, same input width: only the order / names of the arguments differ
    "swap_ab": "def test(a: bool, b: bool) -> bool:\n    return a and not b\n",
    "swap_ba": "def test(b: bool, a: bool) -> bool:\n    return a and not b\n",
    "swap_abc": "def test(a: bool, b: bool, c: bool) -> bool:\n    return a and not b\n",
    "swap_cab": "def test(c: bool, a: bool, b: bool) -> bool:\n    return a and not b\n",
    "swap_int_ab": "def test(a: Qint[2], b: Qint[2]) -> bool:\n    return a > b\n",
    "swap_int_ba": "def test(b: Qint[2], a: Qint[2]) -> bool:\n    return a > b\n",
    # literals that are equal as Python values but of different kinds (1 and 1.0, 2 and 2.0)
    "fx_one": "def test(a: Qfixed[2, 2]) -> Qfixed[2, 2]:\n    return a + 1.0\n",
    "int_sub_one": "def test(a: Qint[2]) -> Qint[4]:\n    return a - 1\n",
    "fx_two": "def test(a: Qfixed[2, 2]) -> bool:\n    return a >= 2.0\n",
    "int_two": "def test(a: Qint[4]) -> Qint[4]:\n    return (a + 2) ^ 0\n",
    "ifelse": "def test(a: Qint[2], b: bool) -> Qint[2]:\n    c = a\n    if b:\n        c = a + 1\n    else:\n        c = a ^ 1\n    return c\n",
    "forloop": "def test(a: Qlist[bool, 3]) -> bool:\n    s = False\n    for x in a:\n        s = s ^ x\n    return s\n",
}


_COUNTER = [0]


def gate_sig(qc):
    return [(type(g).__name__, [int(x) for x in w], (round(float(p), 9) if isinstance(p, (int, float)) else p)) for g, w, p in qc.gates]


def fingerprint(o):
    """structural, process-independent description of a live object"""
    tn = type(o).__name__
    if tn == "QlassF":
        d = {"type": tn, "name": o.name, "args": [(a.name, str(a.ttype), list(a.bitvec)) for a in o.args], "ret": (str(o.returns.ttype), list(o.returns.bitvec)),
             "exprs": [(str(s), str(e)) for s, e in o.expressions]}
        qc = getattr(o, "_qcircuit", None)
        if qc is not None:
            d.update(gates=gate_sig(qc), qmap=dict(qc.qubit_map), nq=qc.num_qubits, qcname=qc.name)
            try:
                d["inq"] = list(o.input_qubits)
                d["outq"] = list(o.output_qubits)
            except Exception as e:
                d["outq"] = f"raises {type(e).__name__}"
        return d
    if tn == "UnboundQlassf":
        return {"type": tn, "ast": ast.dump(o.fun_ast), "params": list(o.parameters.keys())}
    if tn in ("Grover", "DeutschJozsa", "BernsteinVazirani", "Simon"):
        qc = o.circuit()
        return {"type": tn, "gates": gate_sig(qc), "qmap": dict(qc.qubit_map), "nq": qc.num_qubits, "qcname": qc.name, "outq": list(o.output_qubits), "n_iter": getattr(o, "n_iterations", None)}
    if tn in ("QCircuit", "QCircuitEnhanced"):
        return {"type": tn, "gates": gate_sig(o), "qmap": dict(o.qubit_map), "nq": o.num_qubits, "qcname": o.name}
    if tn == "QuantumCircuit":
        return {"type": tn, "ops": [(i.operation.name, [o.find_bit(q).index for q in i.qubits], [float(x) for x in i.operation.params]) for i in o.data], "nq": o.num_qubits}
    if tn == "Circuit" and type(o).__module__.startswith("cirq"):
        import cirq

        return {"type": "cirq.Circuit", "ops": [str(op) for op in cirq.decompose(o, keep=lambda op: not hasattr(op.gate, "_decompose_") or type(op.gate).__module__.startswith("cirq"))]}
    if isinstance(o, type):
        return {"type": "class", "name": o.__qualname__}
    if tn == "DecompilerResults":
        return {"type": tn, "sections": [(list(s.index), gate_sig(_W(s.gates)), [(str(a), str(b)) for a, b in s.expressions]) for s in o]}
    if isinstance(o, (str, int, float, bool)) or o is None:
        return {"type": tn, "value": o}
    if isinstance(o, (list, tuple)):
        return {"type": tn, "value": json.loads(json.dumps(o, default=str))}
    return {"type": tn, "repr": repr(o)[:300]}


class _W:
    def __init__(self, gates):
        self.gates = gates


def profile(name):
    from qlasskit.boolopt.bool_optimizer import defaultOptimizer, fastOptimizer

    return defaultOptimizer if name == "default" else fastOptimizer


def exec_op(op, objs):
    """op: [kind, ...]; operands refer to objs by index.  Returns the resulting live object."""
    from qlasskit import qlassf

    k = op[0]
    if k == "compile":
        _, sid, to_compile, prof, unc = op
        return qlassf(SOURCES[sid], to_compile=to_compile, bool_optimizer=profile(prof), uncompute=unc)
    if k == "compile_types":
        # ["compile_types", source id, key of a list of custom type classes]: the function is a real callable of a module
        # that defines the classes its annotations name; `types=` hands the translator the listed ones
        import importlib.util
        import os
        import tempfile

        sizes = {"none": {}, "q10": {"Qint10": 10}, "narrow3": {"Narrow": 3}, "narrow5": {"Narrow": 5}, "both": {"Qint10": 10, "Narrow": 3}}[op[2]]
        decl = dict({"Qint10": 10, "Narrow": 3}, **sizes)
        hdr = "from qlasskit.types.qint import QintImp\n\n" + "".join(f"class {n}(QintImp):\n    BIT_SIZE = {b}\n\n\n" for n, b in decl.items())
        d = os.environ.get("VQ_SCRATCH") or tempfile.gettempdir()
        _COUNTER[0] += 1
        path = os.path.join(d, f"c10types_{os.getpid()}_{_COUNTER[0]}.py")
        with open(path, "w") as f:
            f.write(hdr + SOURCES[op[1]])
        spec = importlib.util.spec_from_file_location("c10types", path)
        mod = importlib.util.module_from_spec(spec)
        spec.loader.exec_module(mod)
        return qlassf(mod.test, types=[getattr(mod, n) for n in sizes], to_compile=True)
    if k == "compile_callable":
        # the same source as a real Python callable (module file on disk, inspect.getsource) / through the decorator
        import importlib.util
        import os
        import re
        import tempfile

        _, sid, prof, deco = op
        src = SOURCES[sid]
        name = re.match(r"def (\w+)\(", src).group(1)
        hdr = "from qlasskit import qlassf, qlassfa, Qint, Qint2, Qint3, Qint4, Qint8, Qlist, Qmatrix, Parameter\nfrom typing import Tuple\n\n"
        body = ("@qlassf\n" if deco else "") + src
        d = os.environ.get("VQ_SCRATCH") or tempfile.gettempdir()
        _COUNTER[0] += 1
        path = os.path.join(d, f"c10mod_{os.getpid()}_{_COUNTER[0]}.py")
        with open(path, "w") as f:
            f.write(hdr + body)
        spec = importlib.util.spec_from_file_location(f"c10mod_{os.getpid()}_{_COUNTER[0]}", path)
        mod = importlib.util.module_from_spec(spec)
        spec.loader.exec_module(mod)
        obj = getattr(mod, name)
        if deco:
            return obj
        return qlassf(obj, to_compile=True, bool_optimizer=profile(prof))
    if k == "defs":
        _, sid, callee_idx = op
        return qlassf(SOURCES[sid], defs=[objs[callee_idx]], to_compile=True)
    if k == "bind":
        _, uidx, kw = op
        return objs[uidx].bind(**kw)
    if k == "oraclize":
        from qlasskit.algorithms import oraclize

        return oraclize(objs[op[1]], op[2])
    if k == "grover":
        from qlasskit.algorithms import Grover

        if op[2] is None:
            return Grover(objs[op[1]])
        return Grover(objs[op[1]], op[2])
    if k == "dj":
        from qlasskit.algorithms import DeutschJozsa

        return DeutschJozsa(objs[op[1]])
    if k == "bv":
        from qlasskit.algorithms import BernsteinVazirani

        return BernsteinVazirani(objs[op[1]])
    if k == "simon":
        from qlasskit.algorithms import Simon

        return Simon(objs[op[1]])
    if k == "export":
        _, idx, framework, mode = op
        o = objs[idx]
        qc = o.circuit() if hasattr(o, "circuit") else o
        return qc.export(mode, framework)
    if k == "decompile":
        from qlasskit.decompiler import Decompiler

        o = objs[op[1]]
        return Decompiler().decompile(o.circuit())
    if k == "optimize":
        from qlasskit.decompiler import circuit_boolean_optimizer

        return circuit_boolean_optimizer(objs[op[1]].circuit())
    if k == "truth_table":
        return [[str(x) for x in row] for row in objs[op[1]].truth_table()]
    if k == "encode_decode":
        o = objs[op[1]]
        return [str(o.decode_output("0" * len(o.returns))), o.truth_table_header()]
    raise ValueError(k)


def run_recipe(ops):
    """execute ops in order; result = fingerprint (or exception marker) of the LAST op"""
    objs = []
    res = None
    for op in ops:
        try:
            o = exec_op(op, objs)
            objs.append(o)
            res = {"ok": fingerprint(o)}
        except Exception as e:
            objs.append(None)
            res = {"raises": type(e).__name__}
    return res


if __name__ == "__main__":
    import sys

    from vq import repo

    repo.bind()
    ops = json.load(open(sys.argv[1]))
    out = run_recipe(ops)
    with open(sys.argv[2], "w") as f:
        json.dump(out, f, default=str)
