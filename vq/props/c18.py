"""C18 — the quadratic-model export has the function's minimisers as ground states (section 5.18)."""
import itertools
import os
import random
import sys

from ..gen import programs as P
from ..oracles import boolvec, codec
from ..oracles.space import Space
from . import progsem

ID = "C18"
LEVEL = "exploration"
RULE = (
    "case = one accepted program (bool / Qint / tuple returns, also with bound parameters) exported with QlassF.to_bqm in every offered format; the expression tree handed "
    "to the modelling library (recorded by a stand-in pyqubo implementing the documented polynomial semantics) is evaluated on every assignment of the argument bits, minimised "
    "over declared auxiliaries, and its minimisers compared with the inputs that make the fewest return bits true; variables mentioned, model method per format, unknown format, "
    "decode_samples per argument type; non-trivial = the function is non-constant; distinct by source"
)
DECIDING = ["models_built", "assignments_evaluated", "formats_checked", "decode_samples_checked", "decode_partial_samples_checked"]
ASSUMPTIONS = ["pyqubo is not installed: the observation point of the property (the expression tree handed to the modelling library) is served by a stand-in module on the workers' sys.path "
               "with pyqubo's documented semantics for Binary/Not/And/Or/Xor/*Const/+/compile; what pyqubo does when producing ising/qubo dictionaries is outside the claim"]
CASE_TIMEOUT = {"quick": 20, "thorough": 120}


def setup():
    from ..monitors import reach

    reach.install_paths(['qlasskit.bqm:SympyToBQM.visit', 'qlasskit.bqm:to_bqm', 'qlasskit.bqm:decode_samples'])
    here = os.path.join(os.path.dirname(os.path.dirname(os.path.abspath(__file__))), "standin")
    if here not in sys.path:
        sys.path.insert(0, here)


def cases(tier, seed):
    rng = random.Random(18000 + seed)
    for src, args, ret in CORPUS:
        yield {"src": src, "args": args, "ret": ret, "feat": []}
    n = 400 if tier == "quick" else 5000
    cfgs = [P.small_cfg(max_bits=5, depth=2, stmts=1), P.small_cfg(max_bits=7, depth=2, stmts=2)]
    for c in cfgs:
        c.allow = c.allow - {"mul", "pow"}
    pgs = [P.PG(rng, c) for c in cfgs]
    for i in range(n):
        yield pgs[i % 2].program()


CORPUS = [
    ("def f(a: bool) -> bool:\n    return a\n", [["a", "bool"]], "bool"),
    ("def f(a: bool, b: bool) -> bool:\n    return a and b\n", [["a", "bool"], ["b", "bool"]], "bool"),
    ("def f(a: bool, b: bool, c: bool) -> bool:\n    return a or b or c\n", [["a", "bool"], ["b", "bool"], ["c", "bool"]], "bool"),
    ("def f(a: Qint[2]) -> Qint[2]:\n    return a\n", [["a", "Qint2"]], "Qint2"),
    ("def f(a: Qint[2], b: Qint[2]) -> Qint[2]:\n    return a + b\n", [["a", "Qint2"], ["b", "Qint2"]], "Qint2"),
    ("def f(a: Qint[2], b: Qint[2]) -> bool:\n    return a != b\n", [["a", "Qint2"], ["b", "Qint2"]], "bool"),
    ("def f(a: bool, b: bool) -> Tuple[bool, bool]:\n    return (a ^ b, a)\n", [["a", "bool"], ["b", "bool"]], ["bool", "bool"]),
    ("def f(a: Tuple[Qint[2], bool]) -> bool:\n    return a[1] and a[0] == 2\n", [["a", ["Qint2", "bool"]]], "bool"),
    # n-ary operators with 5..10 operands at the top of a return bit
    ("def f(a: Qint[3], b: Qint[3]) -> bool:\n    return a == 5 and b == 3\n", [["a", "Qint3"], ["b", "Qint3"]], "bool"),
    ("def f(a: Qint[3], b: Qint[3]) -> bool:\n    return a != 5 or b != 3\n", [["a", "Qint3"], ["b", "Qint3"]], "bool"),
    ("def f(a: Qint[6]) -> bool:\n    return a == 37\n", [["a", "Qint6"]], "bool"),
    ("def f(a: Qint[5], b: Qint[5]) -> bool:\n    return a == 21 and b == 10\n", [["a", "Qint5"], ["b", "Qint5"]], "bool"),
    ("def f(a: Qlist[bool, 7]) -> bool:\n    r = False\n    for x in a:\n        r = r ^ x\n    return r\n", [["a", ["bool"] * 7]], "bool"),
    ("def f(a: Qlist[bool, 6], b: bool) -> Tuple[bool, bool]:\n    return (a[0] ^ a[1] ^ a[2] ^ a[3] ^ a[4] ^ a[5], any(a) or b)\n", [["a", ["bool"] * 6], ["b", "bool"]], ["bool", "bool"]),
    # nested argument types with elements of different widths (decode_samples spells them in the arguments' types)
    ("def f(t: Tuple[Tuple[bool, Qint[2]], bool]) -> bool:\n    return t[0][0] and t[1] and t[0][1] == 2\n", [["t", [["bool", "Qint2"], "bool"]]], "bool"),
    ("def f(t: Tuple[Tuple[Qint[2], bool], Qint[2]], b: bool) -> Qint[2]:\n    return t[0][0] ^ t[1] if (b ^ t[0][1]) else t[1]\n", [["t", [["Qint2", "bool"], "Qint2"]], ["b", "bool"]], "Qint2"),
    ("def f(t: Tuple[bool, Tuple[bool, Qint[3]]]) -> Tuple[bool, bool]:\n    return (t[0] ^ t[1][0], t[1][1] > 4)\n", [["t", ["bool", ["bool", "Qint3"]]]], ["bool", "bool"]),
    ("def f(m: Qmatrix[bool, 2, 2], l: Qlist[Qint[2], 2]) -> bool:\n    return (m[0][1] ^ m[1][0]) and l[0] == l[1]\n", [["m", [["bool", "bool"], ["bool", "bool"]]], ["l", ["Qint2", "Qint2"]]], "bool"),
]


def check(case):
    from ..monitors import reach

    r = _check_inner(case)
    if isinstance(r, dict):
        r.setdefault("counters", {}).update(reach.take())
    return r


def _check_inner(case):
    setup()
    import pyqubo
    from qlasskit import qlassf
    from qlasskit.bqm import decode_samples

    if not hasattr(pyqubo, "RECORD"):
        return {"status": "error", "error": "a real pyqubo is installed; the stand-in is not in use"}
    src, args, ret = case["src"], case["args"], case["ret"]
    try:
        qf = qlassf(src, to_compile=False)
    except Exception as e:
        return {"status": "rejected", "key": src}
    names = [b for a in qf.args for b in a.bitvec]
    n = len(names)
    if n > 10 or n != progsem.arg_bits(args):
        return {"status": "skipped", "key": src}
    sp = Space(n)
    try:
        env = boolvec.eval_list(qf.expressions, names, sp)
    except (boolvec.FreeSymbol, boolvec.Unsupported):
        return {"status": "skipped", "key": src}
    rets = list(qf.returns.bitvec)
    cnt, fails = {}, []

    def fail(kind, msg, pred=None):
        if len(fails) < 5:
            fails.append({"kind": kind, "msg": f"{msg}; program:\n{src}", "pred": pred})

    # number of true return bits per input
    count = [sum((env[r] >> k) & 1 for r in rets) for k in range(sp.N)]
    mn = min(count)
    want = {k for k in range(sp.N) if count[k] == mn}
    nonconst = any(env[r] not in (0, sp.ALL) for r in rets)
    dep = [i for i in range(n) if any(_depends(env[r], i, sp) for r in rets)]
    models = {}
    for fmt in ("bqm", "ising", "qubo", "pq_model"):
        pyqubo.reset()
        try:
            res = qf.to_bqm(fmt)
        except Exception as e:
            if not nonconst:
                cnt["constant_function_rejected"] = 1
                break
            fail("to_bqm_exception", f"to_bqm({fmt!r}) raised {type(e).__name__}: {e}")
            break
        cnt["formats_checked"] = cnt.get("formats_checked", 0) + 1
        if not pyqubo.RECORD["compiled"]:
            fail("nothing_compiled", f"to_bqm({fmt!r}) never compiled an expression")
            break
        tree = pyqubo.RECORD["compiled"][-1]
        model = res if fmt == "pq_model" else (res[1] if isinstance(res, tuple) else None)
        expect_call = {"bqm": ["to_bqm"], "ising": ["to_ising"], "qubo": ["to_qubo"], "pq_model": []}[fmt]
        if model is None or not isinstance(model, pyqubo.Model) or model.method_calls != expect_call or (fmt != "pq_model" and res[0] != fmt):
            fail("wrong_model_method", f"to_bqm({fmt!r}) returned {res!r} after calling {getattr(model, 'method_calls', None)}")
        models[fmt] = tree
        if fmt != "bqm":
            continue
        cnt["models_built"] = 1
        # variables
        used = tree.variables()
        aux = [v for v in pyqubo.RECORD["binaries"] if v not in names]
        foreign = sorted(v for v in used if v not in names and v not in aux)
        if foreign:
            fail("foreign_variable", f"model mentions undeclared foreign variables {foreign}")
        missing = [names[i] for i in dep if names[i] not in used]
        if missing:
            fail("missing_variable", f"the function depends on {missing} but the model does not mention them")
        # energies, minimised over the auxiliaries the tree actually uses
        auxu = sorted(v for v in used if v not in names)
        if len(auxu) > 8:
            continue
        energy = []
        for k in range(sp.N):
            asg = {nm: (k >> i) & 1 for i, nm in enumerate(names)}
            best = None
            for bits in itertools.product((0, 1), repeat=len(auxu)):
                asg.update(zip(auxu, bits))
                v = tree.value(asg)
                best = v if best is None or v < best else best
            energy.append(best)
        cnt["assignments_evaluated"] = sp.N
        emin = min(energy)
        got = {k for k in range(sp.N) if abs(energy[k] - emin) < 1e-9}
        pred = "c18_symbol_return_as_constraint" if any(type(e).__name__ == "Symbol" for s, e in _merged(qf)) else None
        if got != want:
            k = sorted(got ^ want)[0]
            fail("ground_states", f"minimum-energy inputs {sorted(got)[:8]} != inputs with the fewest true return bits {sorted(want)[:8]} (e.g. input {k:0{n}b}: energy {energy[k]}, true return bits {count[k]}, minimum energy {emin})", pred)
        if mn == 0 and abs(emin) > 1e-9:
            fail("zero_not_at_energy_zero", f"the function has a zero but the minimum energy is {emin}", pred)
    # unknown format
    try:
        pyqubo.reset()
        qf.to_bqm("no_such_format")
        fail("unknown_format_accepted", "to_bqm('no_such_format') did not raise")
    except Exception:
        pass
    # decode_samples
    if "bqm" in models and nonconst:
        rng = random.Random(len(src))
        samples, exp = [], []
        for _ in range(6):
            k = rng.randrange(sp.N)
            s = {nm: (k >> i) & 1 for i, nm in enumerate(names)}
            for r in rets:
                s[r] = (env[r] >> k) & 1
            samples.append(s)
            exp.append({a[0]: v for a, v in zip(args, progsem.decode_row(args, k))})
        try:
            dec = decode_samples(qf, samples)
            cnt["decode_samples_checked"] = len(dec)
            if len(dec) != len(samples):
                fail("decode_samples_count", f"{len(dec)} decoded for {len(samples)} samples")
            for d, e, s in zip(dec, exp, samples):
                got = d.sample
                if set(got) != set(e) or any(not _same(t, got[nm], e[nm]) for nm, t in args):
                    fail("decode_samples", f"sample {s} decoded to {got}, its input variables spell {e}")
                    break
        except Exception as e:
            fail("decode_samples_exception", f"{type(e).__name__}: {e}")
        # samples as a sampler returns them: only the variables the model mentions (the function may ignore some argument
        # bits).  Whatever is done with the unspelled bits, the decoded values must be spelled by SOME completion of the sample
        try:
            used_in = [nm for nm in names if nm in models["bqm"].variables()]
            missing_ix = [i for i, nm in enumerate(names) if nm not in used_in]
            if used_in and 0 < len(missing_ix) <= 6:
                psamples, ks = [], []
                for _ in range(6):
                    k = rng.randrange(sp.N)
                    psamples.append({nm: (k >> i) & 1 for i, nm in enumerate(names) if nm in used_in})
                    ks.append(k)
                dec = decode_samples(qf, psamples)
                cnt["decode_partial_samples_checked"] = cnt.get("decode_partial_samples_checked", 0) + len(dec)
                for d, k, s_ in zip(dec, ks, psamples):
                    ok = False
                    for fill in range(1 << len(missing_ix)):
                        k2 = k
                        for j, i in enumerate(missing_ix):
                            k2 = (k2 & ~(1 << i)) | (((fill >> j) & 1) << i)
                        e = {a[0]: v for a, v in zip(args, progsem.decode_row(args, k2))}
                        if set(d.sample) == set(e) and all(_same(t, d.sample[nm], e[nm]) for nm, t in args):
                            ok = True
                            break
                    if not ok:
                        fail("decode_partial_sample", f"sample {s_} (the variables the model mentions) decoded to {d.sample}: no completion of the unspelled bits {[names[i] for i in missing_ix]} spells these values")
                        break
        except Exception as e:
            fail("decode_partial_samples_exception", f"{type(e).__name__}: {e}")
    return {"status": "checked", "key": src, "nontrivial": nonconst, "evals": sp.N, "fails": fails, "counters": cnt, "cov": [f"ret:{codec.annotation(ret, 1)[:12]}", f"n:{n}"], "sample": src}


def _merged(qf):
    from qlasskit.boolopt.bool_optimizer import merge_expressions

    return merge_expressions(qf.expressions)


def _depends(tab, i, sp):
    v = sp.var(i)
    half = 1 << i
    return ((tab & v) >> half) != (tab & ~v & sp.ALL)


def _same(t, got, exp):
    if isinstance(t, list):
        return isinstance(got, tuple) and len(got) == len(t) and all(_same(x, g, e) for x, g, e in zip(t, got, exp))
    if t == "bool":
        return bool(got) == exp and not isinstance(got, tuple)
    if t == "Qchar":
        return str(got) == exp
    if t.startswith("Qfixed"):
        return abs(float(got) - float(exp)) < 1e-12
    return int(got) == exp and type(got).__name__ == t
