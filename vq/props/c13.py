"""C13 — exports denote the same operation on the same qubits (section 5.13)."""
import math
import random

import numpy as np

from ..gen import circuits as GC
from ..oracles import qasmparse, revsim, statevec

ID = "C13"
LEVEL = "exploration"
RULE = (
    "case = one circuit (random over the exportable gate set incl. multi-controlled and parameterised gates and barriers, structured shapes, circuits "
    "of compiled functions with aliased qubit names, an algorithm circuit) pushed through every installed exporter (Qiskit, Cirq, Sympy, QASM 2/3) in "
    "circuit and gate mode; exported unitaries compared with an own state-vector simulation with qubit i = qubit i (QASM: parsed gate sequence, formal "
    "parameters and invocation operands); non-trivial = >=1 non-barrier gate and >=2 qubits; distinct by gate list"
)
PREIMPORT = ["qiskit", "qiskit.quantum_info", "cirq", "sympy.physics.quantum.qapply", "sympy.physics.quantum.represent", "sympy.physics.quantum.gate"]
DECIDING = ["qiskit_compared", "qiskit_placed_compared", "cirq_compared", "cirq_placed_compared", "sympy_compared", "qasm_parsed"]
ASSUMPTIONS = ["qiskit Operator / cirq.unitary / sympy represent are trusted as simulators of the exported objects", "QASM angles are printed with two decimals by design: parameters are compared within 0.005",
               "an explicit 'Gate not handled' exception marks a gate outside that exporter's exportable set (counted, not a violation) except for barriers, which are no-ops",
               "pennylane and qutip_qip are not installed: those exporters cannot be executed and are outside the claim"]
CASE_TIMEOUT = {"quick": 30, "thorough": 120}
MAX_WORKERS = 16


def cases(tier, seed):
    rng = random.Random(13000 + seed)
    for c in GC.structured(random.Random(5)):
        if c["nq"] <= 6:
            yield {"kind": "circ", "circ": c, "origin": "structured"}
    n = 260 if tier == "quick" else 3000
    pool = ["x", "y", "z", "h", "s", "t", "cx", "cz", "ccx", "mcx", "swap", "cp", "p", "barrier", "mcz", "mctrlx", "x", "cx", "h"]
    for _ in range(n):
        yield {"kind": "circ", "circ": GC.rand_circuit(rng, nq=rng.randint(1, 5), ngates=rng.randint(1, 10), pool=pool, p_classical=0.3), "origin": "random"}
    # qubit maps whose insertion order differs from index order, with aliases (late renames, promoted names)
    for _ in range(120 if tier == "quick" else 1500):
        c = GC.rand_circuit(rng, nq=rng.randint(2, 5), ngates=rng.randint(1, 8), pool=pool, p_classical=0.5)
        nq = c["nq"]
        ren = []
        style = rng.random()
        for q in rng.sample(range(nq), rng.randint(1, nq)):
            if style < 0.3:
                # names of the default form q<k> sitting at another index than k (arguments called q0, q1, ...)
                ren.append(["rename", q, f"q{(q + rng.randint(1, nq)) % (nq + 1)}"])
            else:
                ren.append(["rename", q, f"n{q}_{rng.randint(0, 9)}"])
        for _ in range(rng.randint(0, 2)):
            ren.append(["alias", rng.randrange(nq), f"al{rng.randint(0, 99)}"])
        rng.shuffle(ren)
        yield {"kind": "circ", "circ": c, "rename": ren, "origin": "renamed"}
    from ..gen import programs as P

    pg = P.PG(rng, P.small_cfg(max_bits=3, depth=2, stmts=1))
    for _ in range(40 if tier == "quick" else 300):
        yield {"kind": "compiled", "src": pg.program()["src"], "origin": "compiled"}
    # larger compiled functions: only the text exporters are checked beyond 7 qubits
    pg2 = P.PG(rng, P.small_cfg(max_bits=5, depth=3, stmts=3))
    for _ in range(60 if tier == "quick" else 600):
        yield {"kind": "compiled", "src": pg2.program()["src"], "origin": "compiled_large"}
    yield {"kind": "compiled", "src": "def f(a: Qint[2], b: Qint[2]) -> Qint[2]:\n    c = a + b\n    d = c + a\n    return d if a > b else c\n", "origin": "compiled_large"}
    yield {"kind": "compiled", "src": "def f(a: bool, b: bool) -> bool:\n    c = a and b\n    return c\n", "origin": "compiled"}
    yield {"kind": "algo", "origin": "algorithm"}


def _bitrev(U, n):
    N = 1 << n
    perm = [int(f"{i:0{n}b}"[::-1], 2) for i in range(N)]
    return U[np.ix_(perm, perm)]


def _not_handled(e):
    return "not handled" in str(e).lower()


def check(case):
    from qlasskit.qcircuit.exporter_qasm import QasmExporter

    if case["kind"] == "compiled":
        from qlasskit import qlassf

        try:
            qc = qlassf(case["src"], to_compile=True).circuit()
        except Exception:
            return {"status": "rejected", "key": case["src"]}
        key, sample = case["src"], case["src"]
    elif case["kind"] == "algo":
        from qlasskit import qlassf
        from qlasskit.algorithms import Grover

        qf = qlassf("def f(a: Qint[2]) -> bool:\n    return a == 2\n", to_compile=True)
        qc = Grover(qf).circuit()
        key, sample = "grover(a==2)", "Grover(qlassf('a == 2')).circuit()"
    else:
        qc = GC.build(case["circ"], name="qc")
        for op, q, nm in case.get("rename", []):
            if op == "rename":
                try:
                    del qc[qc.get_key_by_index(q)]
                except Exception:
                    pass
                qc[nm] = q
            else:
                qc[nm] = q
        key, sample = str(case["circ"]) + str(case.get("rename")), dict(case["circ"], rename=case.get("rename"))
    nq = qc.num_qubits
    if nq > 40 or nq == 0:
        return {"status": "skipped", "key": key}
    real = [(g, w, p) for g, w, p in qc.gates if revsim.gate_kind(g) != "nop"]
    has_barrier = len(real) != len(qc.gates)
    text_only = nq > 7
    U = None
    if not text_only:
        try:
            U = statevec.unitary(qc.gates, nq)
        except statevec.UnknownGate:
            return {"status": "skipped", "key": key}
    fails, cnt = [], {}

    def fail(kind, msg, pred=None):
        fails.append({"kind": kind, "msg": f"{msg}; circuit={sample}", "pred": pred})

    # ---- qiskit
    try:
        if text_only:
            raise ImportError("text only")
        from qiskit.quantum_info import Operator

        for mode in ("circuit", "gate"):
            try:
                ex = qc.export(mode, "qiskit")
                UQ = Operator(ex).data
                cnt["qiskit_compared"] = cnt.get("qiskit_compared", 0) + 1
                if ex.num_qubits != nq or not statevec.same_unitary(U, UQ):
                    fail(f"qiskit_{mode}", "qiskit export has a different unitary / qubit count")
                if mode == "gate" and nq >= 2:
                    # the exported gate appended to a larger circuit on a permuted qubit list
                    from qiskit import QuantumCircuit

                    perm = list(reversed(range(nq)))
                    big = QuantumCircuit(nq)
                    big.append(ex, perm)
                    UB = Operator(big).data
                    P = np.zeros((1 << nq, 1 << nq))
                    for x in range(1 << nq):
                        y = sum(((x >> i) & 1) << perm[i] for i in range(nq))
                        P[y, x] = 1
                    cnt["qiskit_placed_compared"] = cnt.get("qiskit_placed_compared", 0) + 1
                    if not statevec.same_unitary(P @ U @ P.T, UB):
                        fail("qiskit_gate_placement", f"qiskit gate appended on qubits {perm} does not act on them in the order given")
            except Exception as e:
                if _not_handled(e):
                    cnt["qiskit_not_exportable"] = cnt.get("qiskit_not_exportable", 0) + 1
                else:
                    fail(f"qiskit_{mode}_exception", f"{type(e).__name__}: {e}")
    except ImportError:
        pass
    # ---- cirq
    try:
        if text_only:
            raise ImportError("text only")
        import cirq

        for mode in ("circuit", "gate"):
            try:
                ex = qc.export(mode, "cirq")
                if mode == "gate":
                    circ = cirq.Circuit(ex().on(*cirq.LineQubit.range(nq)))
                else:
                    circ = ex
                UC = cirq.unitary(circ) if nq > 0 else None
                if len(circ.all_qubits()) < nq:
                    # qubits the circuit never touches are absent from cirq's unitary: pad by comparing on the used ones only
                    UC = cirq.Circuit(list(circ.all_operations()) + [cirq.I(q) for q in cirq.LineQubit.range(nq)]).unitary(qubit_order=cirq.LineQubit.range(nq))
                else:
                    UC = circ.unitary(qubit_order=cirq.LineQubit.range(nq))
                cnt["cirq_compared"] = cnt.get("cirq_compared", 0) + 1
                if not statevec.same_unitary(U, _bitrev(UC, nq)):
                    fail(f"cirq_{mode}", "cirq export has a different unitary")
                if mode == "gate" and nq >= 2:
                    # the exported gate placed on a register that is not in the framework's own sort order: qubit i of the
                    # circuit is the i-th qubit it is placed on
                    for reg in ([cirq.LineQubit(k) for k in reversed(range(nq))], [cirq.NamedQubit(nm) for nm in ["b", "_ret", "a", "anc_0", "c", "Z", "q10", "q2"][:nq]]):
                        if len(reg) < nq:
                            continue
                        c2 = cirq.Circuit(ex().on(*reg), [cirq.I(q) for q in reg])
                        U2 = c2.unitary(qubit_order=reg)
                        cnt["cirq_placed_compared"] = cnt.get("cirq_placed_compared", 0) + 1
                        if not statevec.same_unitary(U, _bitrev(U2, nq)):
                            fail("cirq_gate_placement", f"cirq gate placed on {reg} does not act on them in the order given")
            except Exception as e:
                if _not_handled(e) and "Barrier" in str(e):
                    fail(f"cirq_{mode}_barrier", f"{type(e).__name__}: {e}", pred="c13_cirq_barrier")
                elif _not_handled(e):
                    cnt["cirq_not_exportable"] = cnt.get("cirq_not_exportable", 0) + 1
                else:
                    fail(f"cirq_{mode}_exception", f"{type(e).__name__}: {e}")
    except ImportError:
        pass
    # ---- sympy (small circuits only: symbolic matrices)
    if nq <= 4 and len(real) <= 8 and not text_only:
        try:
            from sympy.physics.quantum.qapply import qapply
            from sympy.physics.quantum.represent import represent

            for mode in ("gate", "circuit"):
                try:
                    ex = qc.export(mode, "sympy")
                    if mode == "gate":
                        if ex is None:
                            M = np.eye(1 << nq, dtype=complex)
                        else:
                            R = represent(ex, nqubits=nq)
                            # sympy folds e.g. X(0)*X(0) to the scalar 1
                            M = np.array(R.tolist(), dtype=complex) if hasattr(R, "tolist") else complex(R) * np.eye(1 << nq, dtype=complex)
                        ok = statevec.same_unitary(U, M)
                    else:
                        v = np.array(represent(qapply(ex), nqubits=nq).tolist(), dtype=complex).reshape(-1)
                        ok = np.allclose(v, U[:, 0], atol=1e-8)
                    cnt["sympy_compared"] = cnt.get("sympy_compared", 0) + 1
                    if not ok:
                        fail(f"sympy_{mode}", "sympy export denotes another operation")
                except Exception as e:
                    if _not_handled(e):
                        cnt["sympy_not_exportable"] = cnt.get("sympy_not_exportable", 0) + 1
                    else:
                        fail(f"sympy_{mode}_exception", f"{type(e).__name__}: {e}")
        except ImportError:
            pass
    # ---- qasm text
    for ver in (2, 3):
        for mode in ("circuit", "gate"):
            try:
                if ver == 3:
                    text = qc.export(mode, "qasm")
                    if text != QasmExporter(version=3).export(qc, mode):
                        fail("qasm_default_version", "export(framework='qasm') differs from QasmExporter(version=3)")
                else:
                    text = QasmExporter(version=2).export(qc, mode)
                pq = qasmparse.parse(text)
                cnt["qasm_parsed"] = cnt.get("qasm_parsed", 0) + 1
            except Exception as e:
                fail(f"qasm{ver}_{mode}_exception", f"{type(e).__name__}: {e}")
                continue
            tag = f"qasm{ver}_{mode}"
            if mode == "circuit":
                if pq["version"] != ("3.0" if ver == 3 else "2.0"):
                    fail(tag + "_header", f"version header {pq['version']}")
                if ver == 2 and ("qelib1.inc" not in pq["includes"] or pq["qreg"] is None or pq["qreg"][1] != nq):
                    fail(tag + "_header", f"v2 header: includes {pq['includes']} qreg {pq['qreg']}")
                reg = pq["qreg"][0] if pq["qreg"] else "q"
                if pq["call"] is None or pq["call"][0] != pq["name"] or pq["call"][1] != [f"{reg}[{i}]" for i in range(nq)]:
                    fail(tag + "_invocation", f"invocation {pq['call']} does not apply gate {pq['name']} to {reg}[0..{nq - 1}]")
            else:
                if pq["version"] is not None or pq["call"] is not None:
                    fail(tag + "_extra", "gate mode prints more than the gate definition")
            params = pq["params"] or []
            if pq["name"] != qc.name:
                fail(tag + "_name", f"gate is called {pq['name']}, circuit {qc.name}")
            if len(params) != nq or len(set(params)) != len(params):
                fail(tag + "_params", f"{len(params)} formal parameters {params} for {nq} qubits", pred="c13_qasm_params_from_names")
                continue
            pos = {nm: i for i, nm in enumerate(params)}
            got = []
            bad = None
            for gname, par, ops in pq["body"]:
                if any(o not in pos for o in ops):
                    bad = f"operand not a formal parameter in {gname} {ops}"
                    break
                got.append((gname, par, [pos[o] for o in ops]))
            if bad:
                fail(tag + "_operand", bad)
                continue
            exp = []
            for g, w, p in real:
                nm = g.name.lower()
                exp.append((nm, p, list(w)))
            ok = len(got) == len(exp)
            if ok:
                for (gn, gp, gw), (en, ep, ew) in zip(got, exp):
                    if gn != en or gw != ew:
                        ok = False
                    elif (ep is None) != (gp is None):
                        ok = False
                    elif ep is not None and gp is not None and abs(gp - float(ep)) > 0.0051:
                        ok = False
            if not ok:
                fail(tag + "_body", f"gate body {got} differs from the circuit {exp} (formal parameter i = qubit i)")
    nontrivial = len(real) >= 1 and nq >= 2
    return {"status": "checked", "key": key, "nontrivial": nontrivial, "evals": 10, "fails": fails[:5], "counters": cnt,
            "cov": [f"origin:{case['origin']}", f"nq:{nq}", "barrier" if has_barrier else "nobarrier"] + sorted({f"gate:{g.name}" for g, w, p in real}), "sample": sample}
