"""C04 — optimizer profiles and each of their steps preserve meaning (section 5.4)."""
import random

from ..gen import exprs as G
from ..oracles import boolvec
from ..oracles.space import Space

ID = "C04"
LEVEL = "exploration"
RULE = (
    "case = one boolean definition list (random DAG-shaped, pattern-directed instance/near-miss of a rewrite rule, "
    "front-end captured, or small-scope enumerated) pushed through every single step and both shipped profiles, with the "
    "list between any two steps of a profile observed; all 2^n assignments evaluated; non-trivial = some step changed the "
    "list structurally and some return symbol is non-constant; distinct by list text"
)
STEPS = ["merge_expressions", "apply_cse", "remove_ITE", "remove_Implies", "transform_or2xor", "transform_or2and", "remove_obvious_expr"]
DECIDING = ["applied:default", "applied:fast"] + [f"changed:{s}" for s in STEPS]
ASSUMPTIONS = [
    "return symbols of a list are the names starting with _ret; every other defined name is an intermediate",
    "apply_cse alone is only claimed on lists without intermediates (the shipped profile runs merge_expressions first); lists with intermediates form a separate stream",
]
CASE_TIMEOUT = {"quick": 60, "thorough": 120}


def cases(tier, seed):
    rng = random.Random(4000 + seed)
    n_rand, n_pat = (700, 600) if tier == "quick" else (7000, 6000)
    # deterministic corpus: regression witnesses
    corpus = [
        {"inputs": ["a", "b", "c"], "list": [["_ret", ["or", ["and", "a", "b", "c"], ["and", ["not", "a"], ["not", "b"], ["not", "c"]]]]]},
        {"inputs": ["a", "b"], "list": [["_ret", ["or", ["and", "a", "b"], ["and", ["not", "a"], ["not", "b"]]]]]},
        {"inputs": ["a", "b", "c", "d"], "list": [["_ret", ["or", ["and", ["or", "a", "b", "c"], "d"], "a"]]]},
        {"inputs": ["a", "b", "c"], "list": [["t0", ["and", "a", "b"]], ["_ret.0", ["or", ["and", "t0", "c"], "a"]], ["_ret.1", ["xor", ["and", "t0", "c"], "b"]]]},
        {"inputs": ["a", "b", "c"], "list": [["t0", "a"], ["t1", ["xor", "t0", "b"]], ["t0", ["and", "t1", "c"]], ["_ret", ["or", "t0", "t1"]]]},
    ]
    corpus += [
        # obvious nodes composed with each other under other operators
        {"inputs": ["a", "b"], "list": [["_ret", ["and", ["or", "b", ["not", "b"]], ["xor", "a", ["not", "a"]]]]]},
        {"inputs": ["a", "b", "c"], "list": [["_ret", ["or", "c", ["and", ["or", "b", ["not", "b"]], ["xor", "a", ["not", "a"]]]]]]},
        {"inputs": ["a", "b"], "list": [["_ret", ["or", ["and", "b", ["not", "b"]], ["imp", "a", ["not", "a"]]]]]},
        {"inputs": ["a", "b"], "list": [["_ret", ["and", ["not", ["and", "b", ["not", "b"]]], ["imp", "a", ["not", "a"]]]]]},
        # or->xnor with unequal arities
        {"inputs": ["a", "b", "c"], "list": [["_ret", ["or", ["and", "a", "b"], ["and", ["not", "a"], ["not", "b"], ["not", "c"]]]]]},
        {"inputs": ["a", "b", "c"], "list": [["_ret", ["or", ["and", ["not", "a"], ["not", "b"], "c"], ["and", "a", "b"]]]]},
        # a return bit followed by a redefinition of an intermediate it used; an input called x0 passed through bare
        {"inputs": ["a", "b", "c"], "list": [["t", ["and", "a", "b"]], ["_ret.0", ["or", "t", "c"]], ["t", ["xor", "a", "b"]], ["_ret.1", ["and", "t", "c"]]]},
        {"inputs": ["x0", "a", "b", "c"], "list": [["_ret.0", "x0"], ["_ret.1", ["xor", ["and", "a", "b"], "c"]], ["_ret.2", ["or", ["and", "a", "b"], "c"]]]},
        # Xor operands that are different before a rewrite and identical after it (they must cancel)
        {"inputs": ["a", "b", "c"], "list": [["_ret", ["xor", ["ite", "c", "a", "b"], ["or", ["and", "c", "a"], ["and", ["not", "c"], "b"]]]]]},
        {"inputs": ["a", "b", "c"], "list": [["_ret", ["xor", ["imp", "a", "b"], ["or", ["not", "a"], "b"], "c"]]]},
        {"inputs": ["a", "b", "c"], "list": [["_ret", ["xor", ["or", "a", "b", "c"], ["not", ["and", ["not", "a"], ["not", "b"], ["not", "c"]]], "a"]]]},
        {"inputs": ["a", "b", "c"], "list": [["_ret.0", ["xor", ["ite", "a", "b", "c"], ["ite", "a", "b", "c"], "b"]], ["_ret.1", ["and", ["imp", "a", "b"], ["or", ["not", "a"], "b"]]]]},
        # if-then-else with complemented branches
        {"inputs": ["a", "b", "c"], "list": [["_ret", ["ite", "a", "b", ["not", "b"]]]]},
        {"inputs": ["a", "b", "c"], "list": [["_ret", ["ite", ["not", "a"], ["and", "b", "c"], ["not", ["and", "b", "c"]]]]]},
    ]
    for c in corpus:
        yield dict(c, kind="list", evaluate=True, origin="corpus")
        yield dict(c, kind="list", evaluate=False, origin="corpus")
    for c in G.pattern_lists(rng, n_pat):
        yield dict(c, kind="list", evaluate=rng.random() < 0.6, origin="pattern")
    for i in range(n_rand):
        c = G.rand_list(rng, depth=rng.choice([2, 3, 3, 4]))
        yield dict(c, kind="list", evaluate=rng.random() < 0.75, origin="random")
    # x<k>-named intermediates (cse's fresh names) as their own construct
    for i in range(n_rand // 10):
        c = G.rand_list(rng, depth=3, names="x")
        yield dict(c, kind="list", evaluate=True, origin="xnames")
    # inputs named like cse's fresh symbols, some of them only passed through bare (x0 appears in no compound expression)
    for i in range(n_rand // 10):
        c = G.rand_list(rng, n_in=rng.randint(3, 6), depth=rng.choice([2, 3]), n_ret=rng.randint(2, 3))
        m = {nm: f"x{k}" for k, nm in enumerate(c["inputs"])}

        def ren(e):
            if isinstance(e, str):
                return m.get(e, e)
            if isinstance(e, list):
                return [e[0]] + [ren(x) for x in e[1:]]
            return e

        lst = [[nm, ren(e)] for nm, e in c["list"]]
        if rng.random() < 0.7:
            # one return bit is a bare input that the other definitions do not mention, the others share a sub-expression
            bare = rng.choice(list(m.values()))
            shared = ["and", rng.choice([v for v in m.values() if v != bare]), rng.choice([v for v in m.values() if v != bare])]
            rets = [nm for nm, _ in lst if nm.startswith("_ret")]

            def drop(e):
                if e == bare:
                    return shared[1]
                if isinstance(e, list):
                    return [e[0]] + [drop(x) for x in e[1:]]
                return e

            lst = [[nm, drop(e)] for nm, e in lst]
            lst = [[nm, (bare if nm == rets[0] else [rng.choice(["xor", "or", "and"]), e, shared])] if nm in rets else [nm, e] for nm, e in lst]
        yield {"inputs": list(m.values()), "list": lst, "kind": "list", "evaluate": True, "origin": "xinputs"}
    if tier == "thorough":
        for e in G.enum_small():
            yield {"kind": "list", "inputs": ["a", "b", "c"], "list": [["_ret", e]], "evaluate": False, "origin": "enum"}
            yield {"kind": "list", "inputs": ["a", "b", "c"], "list": [["_ret", e]], "evaluate": True, "origin": "enum"}
    # lists captured from the front end
    from ..gen import programs as P

    for src in P.frontend_corpus(rng, 60 if tier == "quick" else 600):
        yield {"kind": "frontend", "src": src}


def _steps():
    from qlasskit.boolopt.bool_optimizer import defaultOptimizer, fastOptimizer

    named = {}
    for s in defaultOptimizer.steps:
        named[getattr(s, "__name__", type(s).__name__)] = s
    return named, defaultOptimizer, fastOptimizer


def _apply(step, lst):
    from qlasskit.boolopt.bool_optimizer import BoolOptimizerProfile

    return BoolOptimizerProfile([step]).apply(list(lst))


def _name(s):
    return s.name if hasattr(s, "name") else str(s)


def _tables(lst, inputs, sp):
    """-> (env of return symbols, problem or None)"""
    env = boolvec.input_env(inputs, sp)
    try:
        for s, e in lst:
            env[_name(s)] = boolvec.ev(e, env, sp, {})
    except boolvec.FreeSymbol as fs:
        return None, f"symbol {fs} used before any definition and is not an input"
    return env, None


def compare(before, after, inputs, sp, what):
    """Return list of failures of `after` w.r.t. `before`."""
    envb, pb = _tables(before, inputs, sp)
    if pb:
        return None  # ill-formed precondition: not judged
    enva, pa = _tables(after, inputs, sp)
    rets = []
    for s, e in before:
        n = _name(s)
        if n.startswith("_ret") and n not in rets:
            rets.append(n)
    if pa:
        return [{"kind": "free_symbol", "msg": f"{what}: {pa}; result = {[(str(s), str(e)) for s, e in after][:8]}"}]
    defined_after = {_name(s) for s, e in after}
    fails = []
    for r in rets:
        if r not in defined_after:
            fails.append({"kind": "ret_lost", "msg": f"{what}: return symbol {r} has no definition in the result"})
            continue
        d = envb[r] ^ enva[r]
        if d:
            k = sp.first(d)
            asg = {nm: (k >> i) & 1 for i, nm in enumerate(inputs)}
            fails.append({"kind": "value_changed", "msg": f"{what}: {r} differs on {asg}: before={(envb[r] >> k) & 1} after={(enva[r] >> k) & 1}; "
                          f"before={[(str(s), str(e)) for s, e in before][:6]} after={[(str(s), str(e)) for s, e in after][:6]}"})
    return fails


def check(case):
    if case["kind"] == "frontend":
        return check_frontend(case)
    lst = G.list_to_sympy(case["list"], case.get("evaluate", True))
    return check_list(lst, case["inputs"], key=str(case["list"]) + str(case.get("evaluate")), origin=case.get("origin", "?"), sample=case["list"])


def check_list(lst, inputs, key, origin, sample):
    named, dflt, fast = _steps()
    sp = Space(len(inputs))
    fails, cnt, cov = [], {}, [f"origin:{origin}", f"inputs:{len(inputs)}"]
    has_mid = any(not _name(s).startswith("_ret") for s, e in lst)
    changed_any = False

    def judge(step_name, before, fn, pred=None):
        nonlocal changed_any
        try:
            after = fn(before)
        except Exception as e:
            fails.append({"kind": "step_exception", "msg": f"{step_name} raised {type(e).__name__}: {e} on {[(str(s), str(x)) for s, x in before][:6]}", "pred": pred})
            return None
        after = [(s, e) for s, e in after]
        cnt[f"applied:{step_name}"] = cnt.get(f"applied:{step_name}", 0) + 1
        if [(str(s), str(e)) for s, e in after] != [(str(s), str(e)) for s, e in before]:
            cnt[f"changed:{step_name}"] = cnt.get(f"changed:{step_name}", 0) + 1
            changed_any = True
        fs = compare(before, after, inputs, sp, step_name)
        for f in fs or []:
            f["pred"] = pred
            fails.append(f)
        return after

    # every step alone on the list
    for nm in STEPS:
        st = named.get(nm)
        if st is None:
            fails.append({"kind": "step_missing", "msg": f"default profile has no step {nm}", "pred": None})
            continue
        pred = "c04_cse_with_intermediates" if (nm == "apply_cse" and has_mid) else None
        judge(nm, lst, lambda L, st=st: _apply(st, L), pred)
    # profiles, observing between steps
    for pname, prof in (("default", dflt), ("fast", fast)):
        cur = lst
        for st in prof.steps:
            nm = getattr(st, "__name__", type(st).__name__)
            nxt = judge(f"{pname}/{nm}", cur, lambda L, st=st: _apply(st, L))
            if nxt is None:
                break
            cur = nxt
        judge(pname, lst, lambda L, prof=prof: prof.apply(list(L)))
    envb, _ = _tables(lst, inputs, sp)
    nonconst = any(_name(s).startswith("_ret") and envb[_name(s)] not in (0, sp.ALL) for s, e in lst) if envb else False
    return {"status": "checked", "key": key, "nontrivial": bool(changed_any and nonconst), "evals": sp.N * (len(STEPS) + 2), "fails": fails[:6],
            "counters": cnt, "cov": cov, "sample": {"inputs": inputs, "list": sample}}


def check_frontend(case):
    """Capture the list the real front end hands to the optimizer and push it through every step."""
    from qlasskit import qlassf
    from qlasskit.boolopt.bool_optimizer import BoolOptimizerProfile

    try:
        qf = qlassf(case["src"], to_compile=False, bool_optimizer=BoolOptimizerProfile([]))
    except Exception as e:
        return {"status": "rejected", "key": case["src"], "counters": {"frontend_rejected": 1}}
    if not hasattr(qf, "expressions"):
        return {"status": "skipped", "key": case["src"]}
    inputs = [b for a in qf.args for b in a.bitvec]
    if len(inputs) > 12:
        return {"status": "skipped", "key": case["src"]}
    lst = [(s, e) for s, e in qf.expressions]
    r = check_list(lst, inputs, key=case["src"], origin="frontend", sample=case["src"])
    r["counters"]["frontend_lists"] = 1
    return r
