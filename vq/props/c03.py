"""C03 — compiled circuits are clean: inputs preserved, scratch qubits back to zero (section 5.3)."""
from ..oracles import boolvec
from . import compilecases as K
from . import compilecheck as CC

ID = "C03"
LEVEL = "exploration"
RULE = (
    "case = one generated program / definition list compiled with uncompute=True; every qubit of the circuit simulated on all 2^n "
    "inputs (n<=12); argument qubits must end unchanged and every qubit that is neither argument nor output must end 0; a dirty case is "
    "attributed by replay-divergence forensics of uncompute_all (first deviation from the ideal reverse replay); non-trivial = the "
    "circuit has >=1 scratch qubit and uncompute_all appended >=1 gate; distinct by (source/list text, profile)"
)
DECIDING = ["compiled", "qubits_checked", "uncompute_all_calls", "replayed_gates"]
ASSUMPTIONS = ["input qubits are 0..n-1; output qubits are qubit_map[return bits]; all other qubits are scratch"]
CASE_TIMEOUT = {"quick": 25, "thorough": 90}


def cases(tier, seed):
    n_prog, n_list = (600, 900) if tier == "quick" else (7000, 12000)
    return K.case_stream(tier, seed, 3000, n_prog, n_list)


def attribute(devs):
    """first deviation -> predicate name of a known mechanism, or None"""
    if not devs:
        return None, "no-deviation"
    kind, i, classes = devs[0]
    if kind == "ii" and classes == ("ii-a",):
        return "c03_replay_transient_control", "ii-a"
    if kind == "ii" and classes == ("ii-b",):
        return "c03_replay_kept_control_retargeted", "ii-b"
    if kind == "ii" and set(classes) == {"ii-a", "ii-b"}:
        return "c03_replay_transient_control", "ii-a+b"
    if kind == "i" and classes == ("i-a",):
        return "c03_freed_mid_replay", "i-a"
    return None, f"{kind}:{','.join(classes)}"


def check(case):
    fails, cnt, cov = [], {}, [f"origin:{case.get('origin')}", f"kind:{case['kind']}", f"profile:{case['profile']}"]
    key = (case.get("src") or str(case.get("list"))) + case["profile"]
    try:
        qc, names, rets, exprs, qf = K.compile_case(case, True)
    except Exception as e:
        return {"status": "rejected", "key": key, "counters": {f"compile_exception:{type(e).__name__}": 1}, "cov": cov}
    if len(names) > 12:
        return {"status": "skipped", "key": key}
    try:
        o = CC.observe(qc, names, rets, exprs)
    except (boolvec.FreeSymbol, boolvec.Unsupported):
        return {"status": "skipped", "key": key, "counters": {"unsupported_list": 1}}
    if o.nonclassical:
        return {"status": "skipped", "key": key, "counters": {"nonclassical": 1}}
    n = len(names)
    cnt["compiled"] = 1
    cnt["qubits_checked"] = o.nq - len(set(o.out_qubits))
    cnt["uncompute_all_calls"] = o.log.get("ua_calls", 0)
    replayed = o.log.get("ua_post_len", 0) - o.log.get("ua_pre_len", 0)
    cnt["replayed_gates"] = replayed
    cnt["reuse_events"] = len(o.log.get("reuse", []))
    cnt["inline_uncomputes"] = len(o.log.get("inline", []))
    devs = CC.forensics(qc, n)
    cnt["deviations"] = len(devs)
    inv = CC.LOG.get("inv_fails", [])
    cnt["reuse_zero_checks"] = len(o.log.get("reuse", []))
    if inv:
        cnt["scratch_invariant_broken_before_final_uncompute"] = 1
    if o.dirty:
        pred, cls = attribute(devs)
        if inv:
            # the known mechanisms live in uncompute_all's replay; a scratch qubit that is handed out or
            # listed as free while not |0> *before* the replay is something else
            icls = CC.LOG.get("inv_class")
            pred = "c03_inline_uncompute_stale_control" if icls == "inline-stale-control" else None
            cls = f"{inv[0][0]}@{inv[0][1]}:q{inv[0][2]}:{icls}"
        cnt[f"dirty:{cls}"] = 1
        q, kind, row, nrows = o.dirty[0]
        asg = {nm: (row >> i) & 1 for i, nm in enumerate(names)}
        if any(k == "input" for _, k, _, _ in o.dirty) and pred is None:
            kindname = "input_changed"
        else:
            kindname = "dirty_scratch" if kind == "scratch" else "input_changed"
        # the observation (a qubit that is neither argument nor output ends non-zero) decides; the forensics only attribute.
        # No deviation from the ideal replay means the replay did what it was asked and the qubit was never scheduled for
        # uncomputation (e.g. it was on the keep list): unattributed, hence a violation
        fails.append({"kind": kindname, "pred": pred if cls != "no-deviation" else None,
                      "msg": f"{len(o.dirty)} qubit(s) not restored, first qubit {q} ({kind}) on {nrows} inputs e.g. {asg}; first deviation of uncompute_all from the ideal replay: {devs[0] if devs else None} class {cls}; "
                             f"outs={o.out_qubits} nq={o.nq} gates={[(type(g).__name__, w) for g, w, p in qc.gates][:60]}"})
    else:
        cnt["clean"] = 1
        if devs:
            cnt["clean_with_deviation"] = 1
    return {"status": "checked", "key": key, "nontrivial": o.nq > n + len(rets) or replayed > 0, "evals": 1 << n, "fails": fails, "counters": cnt, "cov": cov,
            "sample": case.get("src") or {"inputs": case["inputs"], "list": case["list"], "profile": case["profile"]}}
