"""C11 — decompiled expressions describe exactly what the gates do (section 5.11)."""
import random

from ..gen import circuits as GC
from ..oracles import boolvec, revsim
from ..oracles.space import Space

ID = "C11"
LEVEL = "exploration"
RULE = (
    "case = one circuit over the library's gate set (random mixes of classical runs, non-classical separators and barriers; structured shapes; "
    "circuits of compiled functions; exhaustive <=3-gate enumeration in the thorough tier); the sections reported by Decompiler.decompile are compared "
    "with an independent scan for maximal classical runs and each section's expressions with a reversible simulation over symbolic entry values "
    "(all 2^nq entry states); non-trivial = the circuit has >=1 classical gate; distinct by gate list"
)
DECIDING = ["redecompiled_after_growth", "decompiled", "sections_checked", "expressions_checked"]
ASSUMPTIONS = ["classical gates = X, CX, CCX, MCX; barriers are ignored; the I gate and MCtrl(X) are left out of the workload (the library itself does not treat them consistently as classical)",
               "a section's half-open index range may include barriers adjacent to the run but no other gate"]


def setup():
    from ..monitors import reach

    reach.install_paths(['qlasskit.decompiler.decompiler:Decompiler.decompile'])


def cases(tier, seed):
    rng = random.Random(11000 + seed)
    for c in GC.structured(random.Random(5)):
        yield {"kind": "circ", "circ": c, "origin": "structured"}
    n = 1500 if tier == "quick" else 20000
    for _ in range(n):
        yield {"kind": "circ", "circ": GC.rand_circuit(rng), "origin": "random"}
    from ..gen import programs as P

    pg = P.PG(rng, P.small_cfg(max_bits=5))
    for _ in range(40 if tier == "quick" else 400):
        yield {"kind": "compiled", "src": pg.program()["src"], "origin": "compiled"}
    if tier == "thorough":
        for c in GC.enum_small(3, 3):
            yield {"kind": "circ", "circ": c, "origin": "enum"}


def runs_of(gates):
    """independent scan: maximal runs of classical gates, barriers ignored -> [(first, last, [indices])]"""
    out, cur = [], []
    for i, (g, w, p) in enumerate(gates):
        k = revsim.gate_kind(g)
        if k == "nop":
            continue
        if k == "x" and type(g).__name__ in ("X", "CX", "CCX", "MCX"):
            cur.append(i)
        else:
            if cur:
                out.append(cur)
            cur = []
    if cur:
        out.append(cur)
    return out


def check(case):
    from ..monitors import reach

    r = _check_inner(case)
    if isinstance(r, dict):
        r.setdefault("counters", {}).update(reach.take())
    return r


def _check_inner(case):
    from qlasskit.decompiler import Decompiler

    if case["kind"] == "compiled":
        from qlasskit import qlassf

        try:
            qf = qlassf(case["src"], to_compile=True)
            qc = qf.circuit()
        except Exception:
            return {"status": "rejected", "key": case["src"]}
        key = case["src"]
        sample = case["src"]
    else:
        qc = GC.build(case["circ"])
        key = str(case["circ"])
        sample = case["circ"]
    nq = qc.num_qubits
    if nq > 14:
        return {"status": "skipped", "key": key}
    fails, cnt, cov = [], {}, [f"origin:{case['origin']}"]

    def verify(qc, what=""):
        gates0 = list(qc.gates)
        nq = qc.num_qubits
        try:
            res = Decompiler().decompile(qc)
            secs = list(res)
        except Exception as e:
            fails.append({"kind": "decompile_exception", "msg": f"{type(e).__name__}: {e} on {sample}{what}", "pred": None})
            return []
        cnt["decompiled"] = 1
        runs = runs_of(gates0)
        if len(secs) != len(runs):
            fails.append({"kind": "section_count", "msg": f"{len(secs)} sections reported, {len(runs)} maximal classical runs exist: reported {[s.index for s in secs]}, runs {[(r[0], r[-1]) for r in runs]} in {sample}{what}", "pred": None})
        sp = Space(nq)
        for sec, run in zip(secs, runs):
            cnt["sections_checked"] = cnt.get("sections_checked", 0) + 1
            a, b = sec.index
            inside = [i for i in range(max(a, 0), min(b, len(gates0))) if revsim.gate_kind(gates0[i][0]) != "nop"]
            if a != run[0] or inside != run:
                fails.append({"kind": "section_range", "msg": f"section index {sec.index} covers non-barrier gates {inside}, the run is {run} in {sample}{what}", "pred": None})
                continue
            got = [(type(g).__name__, list(w)) for g, w, p in sec.gates]
            exp = [(type(gates0[i][0]).__name__, list(gates0[i][1])) for i in run]
            if got != exp:
                fails.append({"kind": "section_gates", "msg": f"section {sec.index} lists gates {got}, the run holds {exp}", "pred": None})
                continue
            # semantics: expressions over entry values q0..q(n-1)
            st = [sp.var(q) for q in range(nq)]
            revsim.run([gates0[i] for i in run], st, sp)
            env = {f"q{q}": sp.var(q) for q in range(nq)}
            named = {}
            for s, e in sec.expressions:
                named[s.name if hasattr(s, "name") else str(s)] = e
            for q in range(nq):
                nm = f"q{q}"
                cnt["expressions_checked"] = cnt.get("expressions_checked", 0) + 1
                if nm in named:
                    try:
                        v = boolvec.ev(named[nm], env, sp, {})
                    except boolvec.FreeSymbol as fs:
                        fails.append({"kind": "expr_free_symbol", "msg": f"section {sec.index}: expression of {nm} mentions unknown symbol {fs}", "pred": None})
                        continue
                    if v != st[q]:
                        k = sp.first(v ^ st[q])
                        fails.append({"kind": "expr_wrong", "msg": f"section {sec.index}: reported {nm} = {named[nm]} differs from the gates' action on entry state {k:0{nq}b}(q{nq - 1}..q0) in {sample}{what}", "pred": None})
                elif st[q] != sp.var(q):
                    fails.append({"kind": "expr_missing", "msg": f"section {sec.index}: qubit {q} is changed by the run but has no expression; in {sample}{what}", "pred": None})
            extra = [n for n in named if not (n.startswith("q") and n[1:].isdigit() and int(n[1:]) < nq)]
            if extra:
                fails.append({"kind": "expr_unknown_target", "msg": f"section {sec.index}: expressions for unknown names {extra}", "pred": None})
        if [(type(g).__name__, list(w)) for g, w, p in qc.gates] != [(type(g).__name__, list(w)) for g, w, p in gates0]:
            fails.append({"kind": "input_modified", "msg": "decompile changed the circuit's gate list", "pred": None})
        return runs

    runs = verify(qc)
    # the same (already decompiled) object grown by composition and decompiled again: every result describes the gates the
    # circuit has NOW
    if case["kind"] != "compiled" and nq <= 6 and not fails:
        import random as _r

        from qlasskit.qcircuit import QCircuit

        rg = _r.Random(len(key))
        tail_c = QCircuit(nq)
        for _ in range(rg.randint(1, 3)):
            if nq >= 2 and rg.random() < 0.6:
                c_, t_ = rg.sample(range(nq), 2)
                tail_c.cx(c_, t_)
            else:
                tail_c.x(rg.randrange(nq))
        try:
            grown = [(qc + tail_c, " [after qc + tail]"), (qc.repeat(2), " [after qc.repeat(2)]")]
            for g_, w_ in grown:
                cnt["redecompiled_after_growth"] = cnt.get("redecompiled_after_growth", 0) + 1
                verify(g_, w_)
            qc += tail_c
            verify(qc, " [after qc += tail]")
            qc.append_circuit(tail_c, list(range(nq)))
            verify(qc, " [after append_circuit]")
            qc.x(0)
            verify(qc, " [after one more gate]")
            cnt["redecompiled_after_growth"] = cnt.get("redecompiled_after_growth", 0) + 3
        except Exception as e:
            fails.append({"kind": "growth_exception", "msg": f"{type(e).__name__}: {e} on {sample}", "pred": None})
    return {"status": "checked", "key": key, "nontrivial": len(runs) > 0, "evals": (1 << nq) * max(1, len(runs)), "fails": fails[:4], "counters": cnt, "cov": cov + [f"runs:{min(len(runs), 4)}"], "sample": sample}
