"""C02 — the circuit computes the function's boolean expressions (section 5.2)."""
from ..oracles import boolvec
from . import compilecases as K
from . import compilecheck as CC
from ..monitors import shadow

ID = "C02"
LEVEL = "exploration"
RULE = (
    "case = one generated program (through qlassf) or boolean definition list (through the optimizer profile and to_quantum) compiled by "
    "the internal compiler with and without final uncomputation; every qubit simulated on all 2^n inputs (n<=12) and each return qubit "
    "compared with the value of the very expression list handed to the compiler; non-trivial = circuit has >=1 gate and some return "
    "expression is non-constant; distinct by (source/list text, profile)"
)
DECIDING = ["compiled", "outputs_compared", "cache_or_reuse_events", "helper_calls_contract_checked"]
ASSUMPTIONS = ["input qubits are 0..n-1 in argument-bit order; other qubits start at zero", "expected values come from the expression list after the optimizer (C01/C04 are judged separately)"]
CASE_TIMEOUT = {"quick": 25, "thorough": 90}


def cases(tier, seed):
    n_prog, n_list = (500, 900) if tier == "quick" else (6000, 12000)
    return K.case_stream(tier, seed, 2000, n_prog, n_list)


def check(case):
    fails, cnt, cov = [], {}, [f"origin:{case.get('origin')}", f"kind:{case['kind']}", f"profile:{case['profile']}"]
    key = (case.get("src") or str(case.get("list"))) + case["profile"]
    nontrivial = False
    evals = 0
    shadow.install()
    for unc in (True, False):
        shadow.arm(True)
        try:
            qc, names, rets, exprs, qf = K.compile_case(case, unc)
        except Exception as e:
            cnt[f"compile_exception:{type(e).__name__}"] = 1
            return {"status": "rejected", "key": key, "counters": cnt, "cov": cov, "error": str(e)[:200]}
        if len(names) > 12:
            return {"status": "skipped", "key": key, "counters": cnt}
        try:
            o = CC.observe(qc, names, rets, exprs)
        except boolvec.FreeSymbol:
            return {"status": "skipped", "key": key, "counters": {"free_symbol_in_list": 1}}
        except boolvec.Unsupported:
            return {"status": "skipped", "key": key, "counters": {"hybrid_or_unsupported": 1}}
        if o.nonclassical:
            return {"status": "skipped", "key": key, "counters": {"nonclassical": 1}}
        cnt["compiled"] = cnt.get("compiled", 0) + 1
        cnt["outputs_compared"] = cnt.get("outputs_compared", 0) + len(rets)
        cnt["cache_or_reuse_events"] = cnt.get("cache_or_reuse_events", 0) + len(o.log.get("reuse", [])) + len(o.log.get("inline", []))
        cnt["gates"] = cnt.get("gates", 0) + o.ngates
        events = list(shadow.STATE["events"])
        cnt["helper_calls_contract_checked"] = cnt.get("helper_calls_contract_checked", 0) + shadow.STATE["calls"]
        cnt["helper_contract_breaks_recorded"] = cnt.get("helper_contract_breaks_recorded", 0) + len(events)
        shadow.arm(False)
        evals += 1 << len(names)
        if o.ngates > 0:
            nontrivial = True
        tag = f"uncompute={unc}"
        for r in o.ret_unmapped:
            fails.append({"kind": "ret_unmapped", "msg": f"{tag}: return bit {r} is not mapped to any qubit (qubit_map keys {sorted(qc.qubit_map)[:12]})", "pred": None})
        pred = None
        if o.wrong_out and not o.ret_unmapped:
            # attribution: counterfactual for the in-place negation finding, scratch invariants for recycled dirty ancillas
            shadow.arm(False)
            pred = CC.blame_wrong_output(case, unc, K.compile_case, o.log)
            cnt["counterfactual_runs"] = cnt.get("counterfactual_runs", 0) + 1
        for r, q, row, nrows in o.wrong_out[:2]:
            asg = {nm: (row >> i) & 1 for i, nm in enumerate(names)}
            fails.append({"kind": "wrong_output", "msg": f"{tag}: qubit {q} mapped to {r} ends different from the expression's value on {nrows} inputs, first {asg}; "
                          f"first helper that broke its contract: {events[0] if events else None}; exprs={[(str(s), str(e)[:200]) for s, e in exprs][:6]} gates={[(type(g).__name__, w) for g, w, p in qc.gates][:40]}", "pred": pred})
    return {"status": "checked", "key": key, "nontrivial": nontrivial, "evals": evals, "fails": fails[:4], "counters": cnt, "cov": cov,
            "sample": case.get("src") or {"inputs": case["inputs"], "list": case["list"], "profile": case["profile"]}}
