"""C08 — binding parameters is specialisation (section 5.8)."""
import ast
import copy
import random
from fractions import Fraction

from ..gen import programs as P
from ..oracles import codec, refsem
from ..oracles.space import make_space
from . import progsem

ID = "C08"
LEVEL = "exploration"
RULE = (
    "case = one parameterised program (1-4 arguments of a generated program turned into Parameter[...] of types bool, Qint widths, tuples, lists, in every "
    "position) with a history of binds on ONE unbound object: several value assignments (whole domain for <=6 parameter bits, samples beyond), shuffled keyword "
    "orders, repeated and alternating values, failing binds (unknown name, missing parameter) in between; every bound function compared on all remaining inputs "
    "with the unbound Python source run with the parameters replaced by those literals; the unbound object's AST/parameters re-read after every bind; the k-th "
    "bind compared with the same bind on a fresh unbound object; non-trivial = >=2 successful binds with different values; distinct by source"
)
DECIDING = ["binds_checked", "rows_judged", "unbound_fingerprints_checked", "fresh_comparisons", "failing_binds_interleaved"]
ASSUMPTIONS = ["a bound parameter is a literal: it is typed by its value like any literal of the source (discipline D), not by the Parameter[...] annotation"]
CASE_TIMEOUT = {"quick": 40, "thorough": 120}


def param_program(rng, cfg, pool=None):
    pg = P.PG(rng, cfg) if pool is None else None
    for _ in range(20):
        pr = pg.program() if pool is None else pool.pop()
        ok = [i for i, (n, t) in enumerate(pr["args"]) if _bindable(t)]
        if ok:
            break
    else:
        return None
    k = rng.randint(1, min(len(ok), 4))
    pidx = sorted(rng.sample(ok, k))
    # rewrite the signature
    lines = pr["src"].split("\n")
    ret_ann = lines[0].split("->")[1].strip().rstrip(":")
    parts = []
    for i, (n, t) in enumerate(pr["args"]):
        a = codec.annotation(t, 0)
        parts.append(f"{n}: Parameter[{a}]" if i in pidx else f"{n}: {a}")
    lines[0] = f"def f({', '.join(parts)}) -> {ret_ann}:"
    return {"src": "\n".join(lines), "args": pr["args"], "ret": pr["ret"], "params": pidx, "feat": pr["feat"]}


def _bindable(t):
    if isinstance(t, list):
        return all(_bindable(x) for x in t)
    return t == "bool" or t.startswith("Qint") or t == "Qchar" or (t.startswith("Qfixed") and codec.fixed_if(t)[1] <= 4)


def domain(t, rng, limit=8):
    n = codec.size(t)
    if n <= 3:
        rows = list(range(1 << n))
    else:
        rows = sorted({0, (1 << n) - 1, 1, 1 << (n - 1)} | {rng.getrandbits(n) for _ in range(limit)})
    return [codec.decode(t, [(r >> i) & 1 for i in range(n)]) for r in rows]


def setup():
    from ..monitors import reach

    reach.install_paths(['qlasskit.qlassfun:UnboundQlassf.bind', 'qlasskit.ast2ast.astrewriter:ASTRewriter.visit_Assign'])


def cases(tier, seed):
    rng = random.Random(8000 + seed)
    for c in CORPUS:
        yield c
    n = 140 if tier == "quick" else 1500
    cfgs = [P.small_cfg(max_bits=7, max_args=4), P.Cfg(max_bits=9, max_args=4, depth=3, stmts=2, mul_max_w=3)]
    for i in range(n):
        pr = param_program(rng, cfgs[i % 2])
        if pr is None:
            continue
        # history of value assignments
        doms = [domain(pr["args"][i][1], rng) for i in pr["params"]]
        hist = []
        nb = rng.randint(3, 7)
        vals = [[rng.choice(d) for d in doms] for _ in range(nb)]
        if len(doms) == 1 and len(doms[0]) <= 8:
            vals = [[v] for v in doms[0]]
        for v in vals:
            hist.append(["bind", v])
            r = rng.random()
            if r < 0.2:
                hist.append(["bind", vals[0]])  # alternate back to the first values
            elif r < 0.3:
                hist.append(["bad_name"])
            elif r < 0.4 and len(doms) > 1:
                hist.append(["bad_count"])
        pr["history"] = hist
        pr["kind"] = "hist"
        yield pr
    # fixed-point and character parameters (a bound float/str is a literal of the source)
    m = 40 if tier == "quick" else 400
    pool = P.fixed_char_programs(rng, 12 * m) + P.mixed_fixed_programs(rng, 12 * m)
    rng.shuffle(pool)
    for i in range(m):
        pr = param_program(rng, None, pool)
        if pr is None:
            continue
        doms = [domain(pr["args"][i][1], rng) for i in pr["params"]]
        vals = [[rng.choice(d) for d in doms] for _ in range(rng.randint(3, 6))]
        pr["history"] = [["bind", v] for v in vals]
        pr["kind"] = "hist"
        pr["feat"] = list(pr.get("feat", [])) + ["fixed_char_param"]
        yield pr


CORPUS = [
    {"kind": "hist", "src": "def f(c: Parameter[Qint[2]], a: Qint[2]) -> Qint[2]:\n    return g(a) + c\n", "args": [["c", "Qint2"], ["a", "Qint2"]], "ret": "Qint2", "params": [0],
     "defs_src": "def g(x: Qint[2]) -> Qint[2]:\n    return x + 1\n", "defs_name": "g",
     "history": [["bind", [1]], ["bind", [2]], ["bind", [1]], ["bad_name"], ["bind", [3]]], "feat": []},
    {"kind": "hist", "src": "def f(a: bool, c: Parameter[bool], b: bool) -> bool:\n    return g(a, b) ^ c\n", "args": [["a", "bool"], ["c", "bool"], ["b", "bool"]], "ret": "bool", "params": [1],
     "defs_src": "def g(x: bool, y: bool) -> bool:\n    return x and not y\n", "defs_name": "g",
     "history": [["bind", [True]], ["bind", [False]], ["bind", [True]]], "feat": []},
    {"kind": "hist", "src": "def f(c: Parameter[Qlist[bool, 3]], a: bool) -> bool:\n    return all(c) and a\n", "args": [["c", ["bool", "bool", "bool"]], ["a", "bool"]], "ret": "bool", "params": [0],
     "history": [["bind", [(True, True, True)]], ["bind", [(True, False, True)]], ["bind", [(True, True, True)]]], "feat": []},
    {"kind": "hist", "src": "def f(c: Parameter[Qlist[Qint[2], 2]], a: Qint[2]) -> Qint[2]:\n    return sum(c) + a\n", "args": [["c", ["Qint2", "Qint2"]], ["a", "Qint2"]], "ret": "Qint2", "params": [0],
     "history": [["bind", [(1, 2)]], ["bind", [(0, 0)]], ["bind", [(3, 1)]], ["bind", [(1, 2)]]], "feat": []},
    {"kind": "hist", "src": "def f(c: Parameter[Qint[2]], a: bool) -> Qint[2]:\n    return c + 1 if a else c\n", "args": [["c", "Qint2"], ["a", "bool"]], "ret": "Qint2", "params": [0],
     "history": [["bind", [0]], ["bind", [1]], ["bad_name"], ["bind", [2]], ["bind", [3]], ["bind", [1]]], "feat": []},
    {"kind": "hist", "src": "def f(a: Qint[2], c: Parameter[Tuple[bool, Qint[2]]], d: Parameter[bool]) -> Qint[2]:\n    return (c[1] + a) if (c[0] ^ d) else a\n",
     "args": [["a", "Qint2"], ["c", ["bool", "Qint2"]], ["d", "bool"]], "ret": "Qint2", "params": [1, 2],
     "history": [["bind", [(True, 2), False]], ["bad_count"], ["bind", [(False, 3), True]], ["bind", [(True, 2), False]]], "feat": []},
    # list-of-lists parameters indexed with runtime indices: non-square shapes
    {"kind": "hist", "src": "def f(c: Parameter[List[List[Qint[2]]]], i: Qint[2], j: Qint[2]) -> Qint[2]:\n    return c[i][j]\n", "args": [["c", [["Qint2"] * 3] * 2], ["i", "Qint2"], ["j", "Qint2"]], "ret": "Qint2", "params": [0],
     "history": [["bind", [((1, 2, 3), (3, 0, 1))]], ["bind", [((0, 1, 0), (2, 2, 3))]], ["bind", [((1, 2, 3), (3, 0, 1))]]], "feat": ["matrix_param"]},
    {"kind": "hist", "src": "def f(c: Parameter[List[List[Qint[2]]]], i: Qint[2], j: Qint[2]) -> Qint[2]:\n    return c[i][j]\n", "args": [["c", [["Qint2"] * 2] * 3], ["i", "Qint2"], ["j", "Qint2"]], "ret": "Qint2", "params": [0],
     "history": [["bind", [((1, 2), (3, 0), (2, 1))]], ["bind", [((3, 3), (0, 1), (1, 2))]]], "feat": ["matrix_param"]},
    {"kind": "hist", "src": "def f(c: Parameter[List[List[bool]]], i: Qint[2], j: Qint[2], a: bool) -> bool:\n    return c[i][j] ^ a\n", "args": [["c", [["bool"] * 4] * 2], ["i", "Qint2"], ["j", "Qint2"], ["a", "bool"]], "ret": "bool", "params": [0],
     "history": [["bind", [((True, False, False, True), (False, True, True, True))]], ["bind", [((False, False, True, False), (True, True, False, False))]]], "feat": ["matrix_param"]},
    {"kind": "hist", "src": "def f(c: Parameter[List[List[Qint[2]]]], i: Qint[2]) -> Qint[2]:\n    s = 0\n    for r in c:\n        s = s ^ r[i]\n    return s + len(c)\n", "args": [["c", [["Qint2"] * 3] * 2], ["i", "Qint2"]], "ret": "Qint2", "params": [0],
     "history": [["bind", [((1, 2, 3), (3, 0, 1))]], ["bind", [((0, 0, 1), (1, 3, 2))]], ["bind", [((0, 2, 2), (1, 1, 3))]], ["bind", [((0, 1, 1), (2, 0, 0))]], ["bind", [((3, 3, 3), (0, 3, 3))]]], "feat": ["matrix_param"]},
    # a list / tuple parameter reassigned from its own elements
    {"kind": "hist", "src": "def f(c: Parameter[Qlist[Qint[4], 2]], a: Qint[4]) -> Qint[4]:\n    c = [c[1], c[0] + a]\n    return c[0] + c[1]\n", "args": [["c", ["Qint4", "Qint4"]], ["a", "Qint4"]], "ret": "Qint4", "params": [0],
     "history": [["bind", [(0, 5)]], ["bind", [(3, 1)]], ["bind", [(2, 2)]], ["bind", [(0, 5)]]], "feat": ["param_reassigned"]},
    {"kind": "hist", "src": "def f(c: Parameter[Tuple[bool, bool]], a: bool) -> bool:\n    c = (c[1] ^ a, c[0])\n    return c[0] and not c[1]\n", "args": [["c", ["bool", "bool"]], ["a", "bool"]], "ret": "bool", "params": [0],
     "history": [["bind", [(True, False)]], ["bind", [(False, False)]], ["bind", [(True, True)]]], "feat": ["param_reassigned"]},
    # bound lists with equal neighbouring entries, looked up through a subscript expression / a loop variable
    {"kind": "hist", "src": "def f(c: Parameter[Qlist[Qint[2], 4]], a: Tuple[Qint[2], bool]) -> Qint[2]:\n    return c[a[0]]\n", "args": [["c", ["Qint2"] * 4], ["a", ["Qint2", "bool"]]], "ret": "Qint2", "params": [0],
     "history": [["bind", [(0, 1, 1, 2)]], ["bind", [(2, 0, 3, 3)]], ["bind", [(1, 2, 3, 2)]], ["bind", [(0, 1, 1, 2)]], ["bind", [(3, 3, 0, 0)]]], "feat": ["list_param_equal_neighbours"]},
    {"kind": "hist", "src": "def f(c: Parameter[Qlist[Qint[2], 4]], i: Qint[2], b: bool) -> Qint[2]:\n    return c[i] + 1 if b else c[i]\n", "args": [["c", ["Qint2"] * 4], ["i", "Qint2"], ["b", "bool"]], "ret": "Qint2", "params": [0],
     "history": [["bind", [(0, 1, 1, 2)]], ["bind", [(2, 2, 2, 1)]], ["bind", [(0, 3, 3, 3)]]], "feat": ["list_param_equal_neighbours"]},
    {"kind": "hist", "src": "def f(c: Parameter[Qlist[bool, 4]], i: Qint[2], a: Tuple[Qint[2], bool]) -> bool:\n    return c[a[0]] ^ c[i]\n", "args": [["c", ["bool"] * 4], ["i", "Qint2"], ["a", ["Qint2", "bool"]]], "ret": "bool", "params": [0],
     "history": [["bind", [(False, True, True, False)]], ["bind", [(True, False, False, False)]], ["bind", [(False, False, True, True)]]], "feat": ["list_param_equal_neighbours"]},
    {"kind": "hist", "src": "def f(c: Parameter[Qlist[bool, 2]]) -> bool:\n    return c[0] and c[1]\n", "args": [["c", ["bool", "bool"]]], "ret": "bool", "params": [0],
     "history": [["bind", [(True, True)]], ["bind", [(True, False)]], ["bind", [(True, True)]]], "feat": []},
]


def to_py(v):
    if isinstance(v, (tuple, list)):
        return tuple(to_py(x) for x in v)
    if isinstance(v, Fraction):
        return float(v)  # dyadic: exact
    return v


def lift_literal(t, v):
    if isinstance(t, list):
        return tuple(lift_literal(x, y) for x, y in zip(t, v))
    if t == "bool":
        return bool(v)
    if t == "Qchar":
        return refsem._KC(v)
    if t.startswith("Qfixed"):
        return refsem._KF(float(v))
    return refsem._K(int(v))


def fp(qf):
    return ([(a.name, str(a.ttype), list(a.bitvec)) for a in qf.args], str(qf.returns.ttype), [(str(s), str(e)) for s, e in qf.expressions])


def check(case):
    from ..monitors import reach

    r = _check_inner(case)
    if isinstance(r, dict):
        r.setdefault("counters", {}).update(reach.take())
    return r


def _check_inner(case):
    from qlasskit import qlassf

    src, args, ret, pidx = case["src"], case["args"], case["ret"], case["params"]
    key = src
    cnt, fails = {}, []
    defs, extra = [], {}
    if case.get("defs_src"):
        defs = [qlassf(case["defs_src"], to_compile=False)]
        extra = {case["defs_name"]: refsem.make_ref(case["defs_src"])}
        cnt["with_defs"] = 1
    try:
        u = qlassf(src, to_compile=False, defs=defs)
    except Exception as e:
        return {"status": "rejected", "key": key, "counters": {f"rejected:{type(e).__name__}": 1}}
    if not hasattr(u, "bind") or not hasattr(u, "parameters"):
        return {"status": "checked", "key": key, "nontrivial": False, "evals": 0, "counters": cnt,
                "fails": [{"kind": "not_unbound", "msg": f"a function with Parameter[...] arguments was not returned unbound: {src}", "pred": None}]}
    ast0 = ast.dump(u.fun_ast)
    par0 = (list(u.parameters.keys()), [ast.dump(v) if isinstance(v, ast.AST) else repr(v) for v in u.parameters.values()])
    pnames = [args[i][0] for i in pidx]
    if sorted(par0[0]) != sorted(pnames):
        fails.append({"kind": "parameters", "msg": f"parameters {par0[0]} != {pnames}", "pred": None})
    rest = [a for i, a in enumerate(args) if i not in pidx]
    n = progsem.arg_bits(rest)
    sp = make_space(n, limit=10)
    rng = random.Random(len(src))
    seen_vals = set()
    ok_binds = 0
    for step in case["history"]:
        if step[0] == "bad_name":
            try:
                u.bind(**{pn + "_zz": 1 for pn in pnames})
                fails.append({"kind": "bad_bind_accepted", "msg": "bind with unknown parameter names did not raise", "pred": None})
            except Exception:
                cnt["failing_binds_interleaved"] = cnt.get("failing_binds_interleaved", 0) + 1
        elif step[0] == "bad_count":
            try:
                u.bind(**{pnames[0]: 1})
                fails.append({"kind": "bad_bind_accepted", "msg": "bind with a missing parameter did not raise", "pred": None})
            except Exception:
                cnt["failing_binds_interleaved"] = cnt.get("failing_binds_interleaved", 0) + 1
        else:
            vals = [to_py(v) for v in step[1]]
            items = list(zip(pnames, vals))
            rng.shuffle(items)
            kw = {k: (list(v) if isinstance(v, tuple) and rng.random() < 0.5 else v) for k, v in items}
            try:
                qf = u.bind(**kw)
            except Exception as e:
                cnt[f"bind_rejected:{type(e).__name__}"] = cnt.get(f"bind_rejected:{type(e).__name__}", 0) + 1
                # a bind that succeeds on a fresh object must not fail because of earlier binds
                try:
                    qlassf(src, to_compile=False, defs=[qlassf(case["defs_src"], to_compile=False)] if case.get("defs_src") else []).bind(**copy.deepcopy(kw))
                    fails.append({"kind": "history_dependent_failure", "msg": f"bind({kw}) raised {type(e).__name__}: {e} after {ok_binds} earlier binds but succeeds on a fresh unbound object; {src}", "pred": None})
                except Exception:
                    pass
                continue
            cnt["binds_checked"] = cnt.get("binds_checked", 0) + 1
            ok_binds += 1
            seen_vals.add(str(vals))
            # reference: unbound source with the parameters replaced by those literals
            ptypes = {args[i][0]: args[i][1] for i in pidx}
            pv = dict(zip(pnames, vals))
            try:
                rt = progsem.ref_table(src.replace("Parameter[", "Tuple["), rest, ret, sp, extra=extra, fname="f", kwargs=lambda: {k: lift_literal(ptypes[k], v) for k, v in pv.items()})
            except (refsem.Unsupported, SyntaxError):
                cnt["ref_unsupported"] = cnt.get("ref_unsupported", 0) + 1
                rt = None
            if [a.name for a in qf.args] != [a[0] for a in rest]:
                fails.append({"kind": "bound_signature", "msg": f"bound function has arguments {[a.name for a in qf.args]}, expected {[a[0] for a in rest]}", "pred": None})
            elif rt is not None:
                tabs, probs = progsem.lib_tables(qf, sp)
                for kind, msg in probs:
                    fails.append({"kind": kind, "msg": f"bind({kw}): {msg}; {src}", "pred": None})
                if tabs is not None and not probs and len(tabs) == codec.size(ret):
                    cnt["rows_judged"] = cnt.get("rows_judged", 0) + rt.defined
                    for j, t in enumerate(tabs):
                        d = (t ^ rt.exp[j]) & rt.req[j]
                        if d:
                            k = sp.first(d)
                            fails.append({"kind": "value", "msg": f"bind({kw}): return bit {j} is {(t >> k) & 1}, Python with these parameter values gives {(rt.exp[j] >> k) & 1} for {progsem.describe_row(rest, sp.row(k))}; {src}", "pred": None})
                            break
            # the unbound object is not altered
            cnt["unbound_fingerprints_checked"] = cnt.get("unbound_fingerprints_checked", 0) + 1
            par1 = (list(u.parameters.keys()), [ast.dump(v) if isinstance(v, ast.AST) else repr(v) for v in u.parameters.values()])
            if ast.dump(u.fun_ast) != ast0 or par1 != par0:
                fails.append({"kind": "unbound_modified", "msg": f"bind({kw}) changed the unbound object's AST / parameters; {src}", "pred": None})
                ast0, par0 = ast.dump(u.fun_ast), par1
            # same bind on a fresh unbound object
            try:
                u2 = qlassf(src, to_compile=False, defs=defs)
                qf2 = u2.bind(**copy.deepcopy(kw))
                cnt["fresh_comparisons"] = cnt.get("fresh_comparisons", 0) + 1
                if fp(qf2) != fp(qf):
                    fails.append({"kind": "history_dependent", "msg": f"bind({kw}) after {ok_binds - 1} earlier binds differs from the same bind on a fresh object; {src}", "pred": None})
            except Exception as e:
                fails.append({"kind": "fresh_bind_exception", "msg": f"{type(e).__name__}: {e}", "pred": None})
    return {"status": "checked", "key": key, "nontrivial": len(seen_vals) >= 2, "evals": sp.N * max(1, ok_binds), "fails": fails[:4], "counters": cnt,
            "cov": [f"nparams:{len(pidx)}", f"ptype:{'tuple' if any(isinstance(args[i][1], list) for i in pidx) else 'scalar'}", f"ppos:{pidx[0]}"], "sample": {"src": src, "history": case["history"][:4]}}
