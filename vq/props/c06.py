"""C06 — predicates compile to xor-oracles |x>|y> -> |x>|y xor f(x)> (section 5.6)."""
from ..oracles import boolvec, revsim
from ..oracles.space import Space
from . import c03 as C03
from . import compilecases as K
from . import compilecheck as CC

ID = "C06"
LEVEL = "exploration"
RULE = (
    "case = one bool-returning program / single-return definition list compiled with uncompute=True and simulated on all 2^(n+1) basis "
    "states (every input x, both initial values y of the output qubit); the output qubit must end y xor f(x), inputs unchanged, scratch zero, "
    "and applying the circuit twice must be the identity; non-trivial = f is non-constant and the circuit has >=1 gate; distinct by (text, profile)"
)
DECIDING = ["compiled", "xy_states_checked", "double_application_checked"]
ASSUMPTIONS = ["f(x) is the value of the return expression of the list handed to the compiler", "failures already present at y=0 are blamed on the C02/C03 root cause per DESIGN 4.5"]
CASE_TIMEOUT = {"quick": 25, "thorough": 90}


def cases(tier, seed):
    n_prog, n_list = (500, 800) if tier == "quick" else (6000, 10000)
    return K.case_stream(tier, seed, 6000, n_prog, n_list, bool_only=True)


def check(case):
    cnt, fails, cov = {}, [], [f"origin:{case.get('origin')}", f"kind:{case['kind']}", f"profile:{case['profile']}"]
    key = (case.get("src") or str(case.get("list"))) + case["profile"]
    try:
        qc, names, rets, exprs, qf = K.compile_case(case, True)
    except Exception as e:
        return {"status": "rejected", "key": key, "counters": {f"compile_exception:{type(e).__name__}": 1}, "cov": cov}
    if len(rets) != 1:
        return {"status": "skipped", "key": key}
    n = len(names)
    if n > 11:
        return {"status": "skipped", "key": key}
    r = rets[0]
    if r not in qc.qubit_map:
        return {"status": "checked", "key": key, "nontrivial": False, "evals": 0, "counters": {"ret_unmapped": 1},
                "fails": [{"kind": "ret_unmapped", "msg": f"return bit {r} unmapped", "pred": None}]}
    out = qc.qubit_map[r]
    if any(not revsim.is_classical(g) for g, w, p in qc.gates):
        return {"status": "skipped", "key": key, "counters": {"nonclassical": 1}}
    log = dict(CC.LOG)
    sp = Space(n + 1)
    try:
        o = CC.observe(qc, names, rets, exprs, sp=sp, y_qubit=out)
    except (boolvec.FreeSymbol, boolvec.Unsupported):
        return {"status": "skipped", "key": key}
    cnt["compiled"] = 1
    cnt["xy_states_checked"] = sp.N
    Y = sp.var(n)
    f_tab = boolvec.eval_list(exprs, names, sp)[r]
    nontrivial = (f_tab & ~Y & sp.ALL) not in (0, sp.ALL & ~Y) and o.ngates > 0
    controls_on_output = sum(1 for g, w, p in qc.gates if revsim.gate_kind(g) == "x" and out in w[:-1])
    cnt["gates_controlled_by_output_qubit"] = controls_on_output

    def slice_fail(mask):
        wrong = any(((o.final[q] ^ (f_tab ^ Y if q == out else 0)) & mask) for q in [out]) if False else bool((o.final[out] ^ f_tab ^ Y) & mask)
        dirty = False
        for q in range(o.nq):
            if q == out:
                continue
            exp = sp.var(q) if q < n else 0
            if (o.final[q] ^ exp) & mask:
                dirty = True
        return wrong, dirty

    w0, d0 = slice_fail(sp.ALL & ~Y)
    w1, d1 = slice_fail(Y)
    # double application = identity (what repeated use of the oracle relies on)
    st2 = list(o.final)
    revsim.run(qc.gates, st2, sp)
    cnt["double_application_checked"] = 1
    twice_bad = any(st2[q] != (sp.var(q) if q < n else (Y if q == out else 0)) for q in range(o.nq))
    if w0 or d0 or w1 or d1 or twice_bad:
        pred = None
        where = []
        if w0 or d0:
            # shared with y=0: blame the root cause found by the C02/C03 monitors on this very case
            if w0:
                pred = CC.blame_wrong_output(case, True, K.compile_case, log)
                where.append("wrong output already at y=0")
            else:
                CC.LOG.clear()
                CC.LOG.update(log)
                devs = CC.forensics(qc, n)
                pred, cls = C03.attribute(devs)
                if CC.LOG.get("inv_fails"):
                    pred = "c03_inline_uncompute_stale_control" if CC.LOG.get("inv_class") == "inline-stale-control" else None
                where.append(f"scratch/input dirty already at y=0 (uncompute_all first deviation class {cls})")
        else:
            CC.LOG.clear()
            CC.LOG.update(log)
            devs = CC.forensics(qc, n, sp=sp, preset={out: Y})
            pred, cls = C03.attribute(devs)
            if [x for x in CC.LOG.get("inv_fails", []) if x[2] != out]:
                pred = "c03_inline_uncompute_stale_control" if CC.LOG.get("inv_class") == "inline-stale-control" else None
            where.append(f"clean at y=0; at y=1: wrong={w1} dirty={d1} twice_not_identity={twice_bad}; gates controlled by the output qubit: {controls_on_output}; "
                         f"uncompute_all first deviation over (x,y): {devs[0] if devs else None} class {cls}")
        d = (o.final[out] ^ f_tab ^ Y)
        fails.append({"kind": "not_xor_oracle", "pred": pred,
                      "msg": "; ".join(where) + f"; out qubit {out}, n={n}, gates={[(type(g).__name__, w) for g, w, p in qc.gates][:50]}"})
        cnt["fail_shared_with_y0" if (w0 or d0) else "fail_only_y1"] = 1
    return {"status": "checked", "key": key, "nontrivial": bool(nontrivial), "evals": sp.N, "fails": fails, "counters": cnt, "cov": cov,
            "sample": case.get("src") or {"inputs": case["inputs"], "list": case["list"], "profile": case["profile"]}}
