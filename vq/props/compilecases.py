"""Case streams and the compile step shared by C02 / C03 / C06."""
import random

from ..gen import exprs as G
from ..gen import programs as P
from . import compilecheck as CC


def case_stream(tier, seed, salt, n_prog, n_list, bool_only=False):
    rng = random.Random(salt + seed)
    for c in CORPUS_LISTS:
        for prof in ("default", "fast"):
            yield dict(c, kind="list", profile=prof, origin="corpus")
    for src, args, ret in CORPUS_PROGS:
        for prof in ("default", "fast"):
            yield {"kind": "prog", "src": src, "args": args, "ret": ret, "profile": prof, "origin": "corpus", "feat": []}
    # fixed corpus: a committed data file (identical for every VERIF_SEED and immune to generator edits), so that
    # failures of a listed mechanism are keyed by INPUT there (known_inputs.json)
    for c in load_fixed(bool_only):
        yield c
    cfgs = [P.small_cfg(max_bits=6), P.small_cfg(max_bits=8, depth=3), P.Cfg(max_bits=9, depth=3, stmts=3, mul_max_w=3)]
    if bool_only:
        for c in cfgs:
            c.ret_kinds = ["bool"]
    pgs = [P.PG(rng, c) for c in cfgs]
    for i in range(n_prog):
        pr = pgs[i % len(pgs)].program()
        yield dict(pr, kind="prog", profile="default" if i % 3 else "fast", origin="random")
    if not bool_only:
        for i, pr in enumerate(P.fixed_char_programs(rng, max(30, n_prog // 10))):
            yield dict(pr, kind="prog", profile="default" if i % 2 else "fast", origin="fixed_char")
    ops = ["and", "or", "xor", "not"]
    for i in range(n_list):
        r = rng.random()
        if r < 0.3:
            c = G.pattern_lists(rng, 1)[0]
            origin = "pattern"
        else:
            c = G.rand_list(rng, n_in=rng.randint(2, 6), depth=rng.choice([2, 3, 3, 4]), ops=ops + (["ite"] if rng.random() < 0.3 else []), n_ret=1 if bool_only else None)
            origin = "random"
        if bool_only:
            c["list"] = [x for x in c["list"] if not x[0].startswith("_ret")] + [["_ret", [x for x in c["list"] if x[0].startswith("_ret")][0][1]]]
        if rng.random() < 0.1:
            c = rename_inputs(c, rng)
            origin += "+internal_names"
        yield dict(c, kind="list", profile="default" if i % 2 else "fast", evaluate=rng.random() < 0.8, origin=origin)
    if tier == "thorough":
        # small scope, exhaustive: every tree of depth <= 2 over a, b, c (and/or/xor with negated literals), both profiles
        for k, e in enumerate(G.enum_small()):
            yield {"kind": "list", "inputs": ["a", "b", "c"], "list": [["_ret", e]], "profile": "fast" if k % 2 else "default", "evaluate": True, "origin": "enum"}


INTERNAL_LOOKING = ["anc_0", "anc_1", "anc_2", "anc_3", "anc_5", "x0", "x1", "q0", "q1", "q3", "q4"]


def rename_inputs(case, rng):
    """inputs renamed to names the compiler itself uses for ancillas / cse symbols / unnamed qubits"""
    pool = INTERNAL_LOOKING[:]
    rng.shuffle(pool)
    m = {nm: pool[i] for i, nm in enumerate(case["inputs"]) if i < len(pool) and rng.random() < 0.7}

    def ren(e):
        if isinstance(e, str):
            return m.get(e, e)
        if isinstance(e, list):
            return [e[0]] + [ren(x) for x in e[1:]]
        return e

    return dict(case, inputs=[m.get(x, x) for x in case["inputs"]], list=[[nm, ren(e)] for nm, e in case["list"]])


CORPUS_LISTS = [
    # inputs named like the compiler's own ancillas
    {"inputs": ["anc_0", "b", "c"], "list": [["_ret", ["or", ["and", "anc_0", "b"], ["and", "b", ["not", "c"]], ["and", "anc_0", "c"]]]]},
    {"inputs": ["anc_1", "anc_0", "anc_2"], "list": [["_ret", ["xor", ["and", "anc_1", "anc_0"], ["or", "anc_2", ["and", "anc_0", ["not", "anc_1"]]]]]]},
    {"inputs": ["a", "anc_2", "q3"], "list": [["t0", ["and", "a", "anc_2"]], ["_ret.0", ["xor", "t0", "q3"]], ["_ret.1", ["or", ["and", "t0", ["not", "q3"]], ["and", "a", "q3"]]]]},
    # the property's cited shape: a negated xor inside a conjunction inside a xor
    {"inputs": ["a", "b", "c", "d", "e"], "list": [["_ret", ["xor", ["and", ["not", ["xor", "a", "b"]], "c"], ["and", "d", "e"]]]]},
    {"inputs": ["a", "b", "c"], "list": [["_ret", ["or", "a", ["and", "b", ["not", "a"]]]]]},
    {"inputs": ["a", "b", "c", "d"], "list": [["_ret", ["or", ["and", ["or", "a", "b", "c"], "d"], "a"]]]},
    {"inputs": ["a", "b"], "list": [["v0", "a"], ["v1", "v0"], ["_ret", ["or", "v0", "v1"]]]},
    {"inputs": ["a", "b", "c"], "list": [["t0", ["and", "a", "b"]], ["_ret.0", ["xor", "t0", "c"]], ["_ret.1", ["and", "t0", ["not", "c"]]]]},
    {"inputs": ["a", "b", "c"], "list": [["_ret.0", ["and", "a", "b"]], ["_ret.1", ["xor", ["and", "a", "b"], "c"]], ["_ret.2", ["not", ["and", "a", "b"]]]]},
    {"inputs": ["a"], "list": [["_ret", "a"]]},
    {"inputs": ["a"], "list": [["_ret", ["not", "a"]]]},
    {"inputs": ["a", "b"], "list": [["_ret.0", True], ["_ret.1", "a"], ["_ret.2", False]]},
]

CORPUS_PROGS = [
    ("def f(a: Qint[2], b: Qint[2]) -> Qint[2]:\n    return a + b\n", [["a", "Qint2"], ["b", "Qint2"]], "Qint2"),
    ("def f(a: Qint[2], b: Qint[2]) -> bool:\n    return a > b\n", [["a", "Qint2"], ["b", "Qint2"]], "bool"),
    ("def f(a: Qint[2], b: Qint[2]) -> Qint[4]:\n    return a * b\n", [["a", "Qint2"], ["b", "Qint2"]], "Qint4"),
    ("def f(a: Qlist[Qint[2], 2], i: Qint[2]) -> Qint[2]:\n    return a[i]\n", [["a", ["Qint2", "Qint2"]], ["i", "Qint2"]], "Qint2"),
    ("def f(a: bool, b: bool) -> bool:\n    return a\n", [["a", "bool"], ["b", "bool"]], "bool"),
    ("def f(a: bool, b: bool) -> Tuple[bool, bool]:\n    return (b, a)\n", [["a", "bool"], ["b", "bool"]], ["bool", "bool"]),
    ("def f(a: bool) -> bool:\n    return True\n", [["a", "bool"]], "bool"),
    ("def f(anc_0: bool, b: bool, c: bool) -> bool:\n    return (anc_0 and b) or (b and not c) or (anc_0 and c)\n", [["anc_0", "bool"], ["b", "bool"], ["c", "bool"]], "bool"),
    ("def f(a: bool, anc_1: bool, anc_2: Qint[2]) -> bool:\n    return (a and anc_1 and anc_2 == 1) or (anc_1 and anc_2 > 1) or (a and anc_2 == 3)\n", [["a", "bool"], ["anc_1", "bool"], ["anc_2", "Qint2"]], "bool"),
    # a variable negated after another one was derived from its old value; the negated variable is returned itself
    ("def f(a: bool, b: bool, c: bool) -> Tuple[bool, bool]:\n    d = a and b\n    e = d and c\n    d = not d\n    return (d, e != a)\n", [["a", "bool"], ["b", "bool"], ["c", "bool"]], ["bool", "bool"]),
    ("def f(a: Qint[2], b: Qint[2]) -> Qint[2]:\n    c = a + b\n    e = c & b\n    c = ~c\n    return c\n", [["a", "Qint2"], ["b", "Qint2"]], "Qint2"),
    ("def f(a: bool, b: bool) -> bool:\n    d = a ^ b\n    e = d or a\n    d = not d\n    return d\n", [["a", "bool"], ["b", "bool"]], "bool"),
    # an And that recurs inside a later term of a top-level Xor; a negated nested xor under And; if-else shaped Or with the
    # complement nested
    ("def f(a: bool, b: bool, c: bool, d: bool) -> bool:\n    return (a and b) ^ (c and (d ^ (a and b)))\n", [["a", "bool"], ["b", "bool"], ["c", "bool"], ["d", "bool"]], "bool"),
    ("def f(a: bool, b: bool, c: bool, d: bool, e: bool) -> bool:\n    return (not a and not b and not c) ^ (d and (e ^ (a or b or c)))\n", [["a", "bool"], ["b", "bool"], ["c", "bool"], ["d", "bool"], ["e", "bool"]], "bool"),
    ("def f(a: bool, b: bool, c: bool, d: bool) -> bool:\n    return d and ((a == (b == c)) != (a and b))\n", [["a", "bool"], ["b", "bool"], ["c", "bool"], ["d", "bool"]], "bool"),
    ("def f(a: bool, b: bool, c: bool, d: bool) -> bool:\n    return (d or a) and ((a == (b == c)) != (c or b))\n", [["a", "bool"], ["b", "bool"], ["c", "bool"], ["d", "bool"]], "bool"),
    ("def f(a: bool, b: bool, c: bool, d: bool) -> bool:\n    return (a and b) or (c and ((not a) ^ d))\n", [["a", "bool"], ["b", "bool"], ["c", "bool"], ["d", "bool"]], "bool"),
    ("def f(a: bool, b: bool, z: bool) -> bool:\n    return (a == b) and ((a != b) or z)\n", [["a", "bool"], ["b", "bool"], ["z", "bool"]], "bool"),
    # a plain copy of a computed variable, then the negation of one alias as its last read, then a read of the other alias
    ("def f(a: bool, b: bool, c: bool) -> Tuple[bool, bool]:\n    t = a and b\n    u = t\n    v = not t\n    return (u ^ c, v)\n", [["a", "bool"], ["b", "bool"], ["c", "bool"]], ["bool", "bool"]),
    ("def f(a: bool, b: bool, c: bool) -> bool:\n    t = a ^ b\n    u = t\n    v = not u\n    w = v and c\n    return w or t\n", [["a", "bool"], ["b", "bool"], ["c", "bool"]], "bool"),
    ("def f(a: Qint[2], b: Qint[2]) -> Tuple[Qint[2], Qint[2]]:\n    t = a + b\n    u = t\n    v = ~t\n    return (v, u ^ a)\n", [["a", "Qint2"], ["b", "Qint2"]], ["Qint2", "Qint2"]),
    # scratch variables whose names start like the return symbol
    ("def f(a: bool, b: bool, c: bool) -> bool:\n    _retv = a and b\n    return _retv ^ c\n", [["a", "bool"], ["b", "bool"], ["c", "bool"]], "bool"),
    ("def f(a: Qint[2], b: Qint[2]) -> Qint[2]:\n    _ret_tmp = a ^ b\n    return _ret_tmp + a\n", [["a", "Qint2"], ["b", "Qint2"]], "Qint2"),
    ("def f(a: bool, b: bool, c: bool) -> Tuple[bool, bool]:\n    _ret0 = a or b\n    _ret1 = _ret0 and c\n    return (_ret1 ^ a, _ret0 and not c)\n", [["a", "bool"], ["b", "bool"], ["c", "bool"]], ["bool", "bool"]),
    # names that only differ from an internal name (or from each other) by leading underscores
    ("def f(ret: bool) -> bool:\n    return not ret\n", [["ret", "bool"]], "bool"),
    ("def f(ret: Qint[2], b: Qint[2]) -> Qint[2]:\n    return ~ret\n", [["ret", "Qint2"], ["b", "Qint2"]], "Qint2"),
    ("def f(a: bool, _a: bool) -> bool:\n    _a = not a\n    return _a and a\n", [["a", "bool"], ["_a", "bool"]], "bool"),
    ("def f(a: bool, b: bool) -> Tuple[bool, bool]:\n    _b = not b\n    b = a and _b\n    return (b, _b)\n", [["a", "bool"], ["b", "bool"]], ["bool", "bool"]),
    ("def f(a: bool, b: bool, c: bool) -> bool:\n    anc_0 = (a and b) or (b and not c)\n    anc_1 = anc_0 ^ c\n    return (anc_0 and anc_1) or (a and not anc_1)\n", [["a", "bool"], ["b", "bool"], ["c", "bool"]], "bool"),
]


def _profile(name):
    from qlasskit.boolopt.bool_optimizer import defaultOptimizer, fastOptimizer

    return defaultOptimizer if name == "default" else fastOptimizer


def compile_case(case, uncompute):
    """-> (qc, input_names, ret_names, exprs) or raises"""
    CC.install()
    CC.reset()
    if case["kind"] == "prog":
        from qlasskit import qlassf

        qf = qlassf(case["src"], to_compile=True, bool_optimizer=_profile(case["profile"]), uncompute=uncompute)
        names = [b for a in qf.args for b in a.bitvec]
        return qf.circuit(), names, list(qf.returns.bitvec), list(qf.expressions), qf
    from typing import Tuple

    from qlasskit.ast2logic.typing import Arg
    from qlasskit.compiler import to_quantum

    lst = G.list_to_sympy(case["list"], case.get("evaluate", True))
    lst = _profile(case["profile"]).apply(lst)
    lst = [(s, e) for s, e in lst]
    inputs = case["inputs"]
    rets = []
    for s, e in lst:
        if s.name.startswith("_ret") and s.name not in rets:
            rets.append(s.name)
    args = [Arg(nm, bool, [nm]) for nm in inputs]
    rett = bool if len(rets) == 1 else Tuple[tuple([bool] * len(rets))]
    returns = Arg("_ret", rett, rets)
    qc = to_quantum(name="f", args=args, returns=returns, exprs=lst, compiler="internal", uncompute=uncompute)
    return qc, list(inputs), rets, lst, None


FIXED_PATH = __import__("os").path.join(__import__("os").path.dirname(__import__("os").path.abspath(__file__)), "fixed_corpus.json")


def load_fixed(bool_only):
    import json

    with open(FIXED_PATH) as f:
        d = json.load(f)
    return d["bool" if bool_only else "any"]


def make_fixed():
    """(re)create the committed fixed corpus; run by tools/mkfixedcorpus.py only"""
    out = {}
    for key, bool_only in (("any", False), ("bool", True)):
        frng = random.Random(424242 + (1 if bool_only else 0))
        fcfgs = [P.small_cfg(max_bits=5), P.small_cfg(max_bits=7, depth=3)]
        if bool_only:
            for c in fcfgs:
                c.ret_kinds = ["bool"]
        fpgs = [P.PG(frng, c) for c in fcfgs]
        cases = []
        for i in range(220):
            pr = fpgs[i % 2].program()
            cases.append(dict(pr, kind="prog", profile="default" if i % 3 else "fast", origin="fixed"))
        for i in range(320):
            if frng.random() < 0.3:
                c = G.pattern_lists(frng, 1)[0]
            else:
                c = G.rand_list(frng, n_in=frng.randint(2, 5), depth=frng.choice([2, 3, 3]), ops=["and", "or", "xor", "not"] + (["ite"] if frng.random() < 0.3 else []), n_ret=1 if bool_only else None)
            if bool_only:
                c["list"] = [x for x in c["list"] if not x[0].startswith("_ret")] + [["_ret", [x for x in c["list"] if x[0].startswith("_ret")][0][1]]]
            cases.append(dict(c, kind="list", profile="default" if i % 2 else "fast", evaluate=frng.random() < 0.8, origin="fixed"))
        out[key] = cases
    return out
