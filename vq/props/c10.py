"""C10 — compilation is pure: no dependence on, or damage to, earlier work (section 5.10)."""
import hashlib
import json
import os
import random
import subprocess
import sys

from . import c10ops as O

ID = "C10"
LEVEL = "exploration"
RULE = (
    "case = one history of <=12 public API operations (qlassf on strings with several options, defs=, bind, oraclize, Grover/DeutschJozsa/BernsteinVazirani/Simon, "
    "export, decompile, circuit_boolean_optimizer, truth_table) over a pool of programs that contains same-name/different-body functions and functions named after "
    "library globals; after every operation (a) the fingerprint of every live object other than the result is re-read, (b) the result is compared with the same "
    "operation (operands rebuilt from their recipes) executed alone in a fresh interpreter with the same hash seed, (c) library module globals and mutable default "
    "arguments are compared with their snapshot; non-trivial = the history has >=4 operations of >=3 kinds and >=1 operand reuse; distinct by history"
)
PREIMPORT = ["qiskit", "qiskit.quantum_info", "cirq"]
DECIDING = ["operations", "live_fingerprints_reread", "fresh_process_comparisons", "globals_snapshots", "defaults_checked"]
ASSUMPTIONS = ["like-for-like comparison: history and fresh interpreter use the same tree and the same PYTHONHASHSEED", "pyqubo, pennylane, qutip_qip, tweedledum are not installed: to_bqm and those exporters are not part of the histories"]
CASE_TIMEOUT = {"quick": 400, "thorough": 600}
WATCHDOG = {"quick": 1500, "thorough": 6000}

BOOL1 = ["cmp", "cmp3", "xorbits", "balanced", "const", "oracle_named", "shadow_reduce", "named_t", "swap_ab", "swap_ba", "swap_int_ab", "swap_int_ba"]
ANY = list(O.SOURCES)


def gen_history(rng, nops):
    ops = []
    kinds = []  # parallel: what each object is

    def add(op, kind):
        ops.append(op)
        kinds.append(kind)
        return len(ops) - 1

    def pick(pred):
        c = [i for i, k in enumerate(kinds) if pred(k)]
        return rng.choice(c) if c else None

    while len(ops) < nops:
        r = rng.random()
        if rng.random() < 0.08:
            add(["compile_types", rng.choice(["ct_low", "ct_bad", "ct_narrow", "ct_narrow_bad"]), rng.choice(["none", "q10", "narrow3", "narrow5", "both"])], ("ct",))
            continue
        if r < 0.35 or not ops:
            sid = rng.choice(ANY)
            if sid.startswith("caller") or sid.startswith("param"):
                if sid.startswith("param") and sid != "param_caller":
                    add(["compile", sid, True, rng.choice(["default", "fast"]), True], ("unbound", sid))
                continue
            tc = rng.random() < 0.85
            if rng.random() < 0.2 and not sid.startswith("shadow"):
                deco = rng.random() < 0.4
                add(["compile_callable", sid, "default", deco], ("qf", sid, True))
            else:
                add(["compile", sid, tc, rng.choice(["default", "default", "fast"]), rng.random() < 0.8], ("qf", sid, tc))
        elif r < 0.42:
            i = pick(lambda k: k[0] == "qf" and k[1] in ("ident", "inc"))
            if i is not None:
                if rng.random() < 0.4:
                    add(["defs", "param_caller", i], ("unbound", "param"))
                else:
                    add(["defs", "caller_g", i], ("qf", "caller_g", True))
            else:
                i = pick(lambda k: k[0] == "qf" and k[1] in ("and", "and_other_body"))
                if i is not None:
                    add(["defs", "caller_f", i], ("qf", "caller_f", True))
        elif r < 0.5:
            i = pick(lambda k: k[0] == "unbound")
            if i is not None:
                sid = kinds[i][1]
                if sid == "param":
                    kw = {"c": rng.randrange(4)}
                elif sid == "param2":
                    kw = {"c": rng.random() < 0.5, "d": rng.randrange(4)}
                elif sid == "param_all":
                    kw = {"c": [rng.random() < 0.7 for _ in range(3)]}
                elif sid == "param_sum":
                    kw = {"c": [rng.randrange(4), rng.randrange(4)]}
                else:
                    kw = {"c": [rng.random() < 0.5, rng.random() < 0.5]}
                add(["bind", i, kw], ("qf", "bound:" + sid, True))
        elif r < 0.56:
            i = pick(lambda k: k[0] == "qf" and k[2] and k[1] in ("ident", "inc", "add", "oracle_named", "cmp"))
            if i is not None and kinds[i][1] != "add":
                add(["oraclize", i, rng.randrange(4) if kinds[i][1] in ("ident", "inc") else True], ("qf", "oracle", True))
        elif r < 0.66:
            i = pick(lambda k: k[0] == "qf" and k[2] and k[1] in BOOL1 + ["oracle"])
            if i is not None:
                add(["grover", i, None], ("algo",))
            else:
                i = pick(lambda k: k[0] == "qf" and k[2] and k[1] in ("ident", "inc"))
                if i is not None:
                    add(["grover", i, rng.randrange(4)], ("algo",))
        elif r < 0.72:
            i = pick(lambda k: k[0] == "qf" and k[2] and k[1] in BOOL1)
            if i is not None:
                add([rng.choice(["dj", "bv"]), i], ("algo",))
        elif r < 0.75:
            i = pick(lambda k: k[0] == "qf" and k[2] and k[1] == "simon")
            if i is not None:
                add(["simon", i], ("algo",))
        elif r < 0.85:
            i = pick(lambda k: (k[0] == "qf" and k[2]) or k[0] == "algo")
            if i is not None:
                fw = rng.choice(["qiskit", "qasm", "qasm", "qasm", "sympy", "qasm", "cirq"])
                add(["export", i, fw, rng.choice(["circuit", "gate"])], ("export",))
        elif r < 0.9:
            i = pick(lambda k: (k[0] == "qf" and k[2]) or k[0] == "algo")
            if i is not None:
                add([rng.choice(["decompile", "optimize"]), i], ("other",))
        else:
            i = pick(lambda k: k[0] == "qf")
            if i is not None:
                add([rng.choice(["truth_table", "encode_decode"]), i], ("other",))
    return ops


def closure(ops, idx):
    """minimal recipe that rebuilds operation idx: its operand chain only"""
    need = []

    def visit(i):
        if i in need:
            return
        for x in operands(ops[i]):
            visit(x)
        need.append(i)

    visit(idx)
    need.sort()
    remap = {old: new for new, old in enumerate(need)}
    out = []
    for i in need:
        op = list(ops[i])
        for pos in operand_positions(op):
            op[pos] = remap[op[pos]]
        out.append(op)
    return out


def operand_positions(op):
    return {"defs": [2], "bind": [1], "oraclize": [1], "grover": [1], "dj": [1], "bv": [1], "simon": [1], "export": [1], "decompile": [1], "optimize": [1], "truth_table": [1], "encode_decode": [1]}.get(op[0], [])


def operands(op):
    return [op[p] for p in operand_positions(op)]


def cases(tier, seed):
    rng = random.Random(10000 + seed)
    for h in CORPUS:
        yield {"ops": h}
    n = 30 if tier == "quick" else 1200
    for _ in range(n):
        yield {"ops": gen_history(rng, rng.randint(4, 6 if tier == "quick" else 12))}


CORPUS = [
    [["compile", "cmp", True, "default", True], ["grover", 0, None], ["grover", 0, None], ["export", 0, "qasm", "circuit"]],
    [["compile", "oracle_named", True, "default", True], ["oraclize", 0, True], ["oraclize", 0, True], ["grover", 0, None]],
    [["compile", "shadow_flatten", True, "default", True], ["compile", "tuple", True, "default", True], ["compile", "list", True, "default", True]],
    [["compile", "shadow_translate_ast", True, "default", True], ["compile", "and", True, "default", True]],
    [["compile", "shadow_to_quantum", True, "default", True], ["compile", "add", True, "default", True]],
    [["compile", "shadow_ast2ast", True, "default", True], ["compile", "ifelse", True, "default", True]],
    [["compile", "shadow_merge", True, "default", True], ["compile", "cmp", True, "default", True], ["truth_table", 1]],
    [["compile", "shadow_copy", True, "default", True], ["compile", "param", True, "default", True], ["bind", 1, {"c": 1}]],
    [["compile", "shadow_inspect", True, "default", True], ["compile", "tuple", True, "default", True], ["encode_decode", 1]],
    [["compile", "and", True, "default", True], ["compile", "and_other_body", True, "default", True], ["defs", "caller_f", 0], ["defs", "caller_f", 1], ["truth_table", 2]],
    [["compile", "ident", True, "default", True], ["defs", "caller_g", 0], ["compile", "inc", True, "default", True], ["defs", "caller_g", 2], ["defs", "caller_g", 0]],
    [["compile", "named_h", True, "default", True], ["export", 0, "qiskit", "gate"], ["export", 0, "qasm", "circuit"], ["export", 0, "qiskit", "gate"], ["export", 0, "cirq", "gate"]],
    [["compile", "named_t", True, "default", True], ["export", 0, "qiskit", "gate"], ["grover", 0, None], ["export", 2, "qasm", "gate"]],
    [["compile", "named_size", True, "fast", True], ["export", 0, "qiskit", "circuit"], ["export", 0, "qiskit", "gate"], ["truth_table", 0], ["export", 0, "qasm", "circuit"]],
    # custom types: a rejected compilation must not leave its types behind, two types of one name must not be confused
    [["compile_types", "ct_low", "q10"], ["compile_types", "ct_bad", "q10"], ["compile_types", "ct_low", "none"], ["compile_types", "ct_low", "q10"]],
    [["compile_types", "ct_narrow_bad", "narrow5"], ["compile_types", "ct_narrow", "narrow3"], ["compile_types", "ct_narrow", "none"], ["compile_types", "ct_narrow", "narrow5"]],
    [["compile_types", "ct_narrow", "narrow5"], ["compile_types", "ct_narrow", "narrow3"], ["compile", "cmp", True, "default", True], ["compile_types", "ct_low", "both"], ["compile_types", "ct_bad", "both"], ["compile_types", "ct_narrow", "none"]],
    # same name / expressions / width, different argument order: the second compilation must not reuse the first one's circuit
    [["compile", "swap_ab", True, "default", True], ["compile", "swap_ba", True, "default", True], ["truth_table", 1], ["compile", "swap_ab", True, "default", True]],
    [["compile", "swap_cab", True, "default", True], ["compile", "swap_abc", True, "default", True], ["grover", 1, None], ["compile", "swap_cab", True, "fast", True]],
    [["compile", "swap_int_ba", True, "default", True], ["compile", "swap_int_ab", True, "default", True], ["export", 1, "qasm", "circuit"], ["compile", "swap_int_ba", True, "default", False]],
    [["compile", "fx_one", True, "default", True], ["compile", "int_sub_one", True, "default", True], ["truth_table", 1], ["compile", "fx_one", True, "default", True]],
    [["compile", "int_sub_one", True, "default", True], ["compile", "fx_one", True, "default", True], ["truth_table", 1], ["compile", "int_two", True, "fast", True], ["compile", "fx_two", True, "default", True]],
    [["compile", "fx_two", True, "default", True], ["compile", "forloop", True, "default", True], ["compile", "int_two", True, "default", True], ["compile", "fx_one", True, "fast", False]],
    [["compile_callable", "cmp", "default", False], ["compile", "cmp", True, "default", True], ["compile_callable", "cmp", "default", True], ["grover", 0, None], ["export", 2, "qasm", "circuit"]],
    [["compile_callable", "add", "default", True], ["compile_callable", "tuple", "default", False], ["truth_table", 0], ["decompile", 1]],
    [["compile", "inc", True, "default", True], ["defs", "param_caller", 0], ["bind", 1, {"c": 1}], ["bind", 1, {"c": 2}], ["bind", 1, {"c": 1}], ["truth_table", 3]],
    [["compile", "param_all", True, "default", True], ["bind", 0, {"c": [True, True, True]}], ["bind", 0, {"c": [True, False, True]}], ["bind", 0, {"c": [True, True, True]}], ["truth_table", 2]],
    [["compile", "param_sum", True, "default", True], ["bind", 0, {"c": [1, 2]}], ["bind", 0, {"c": [0, 0]}], ["truth_table", 2], ["bind", 0, {"c": [3, 3]}]],
    [["compile", "param_any", True, "fast", True], ["bind", 0, {"c": [False, False]}], ["bind", 0, {"c": [True, False]}], ["export", 2, "qasm", "circuit"]],
]


def fresh(recipe):
    """fingerprint of the last op of `recipe` executed alone in a fresh interpreter (cached on disk per run)"""
    scratch = os.environ.get("VQ_SCRATCH") or os.environ.get("TMPDIR") or "/tmp"
    h = hashlib.sha1((json.dumps(recipe, sort_keys=True) + os.environ.get("PYTHONHASHSEED", "")).encode()).hexdigest()[:20]
    out = os.path.join(scratch, f"c10-{h}.json")
    if not os.path.exists(out):
        inp = os.path.join(scratch, f"c10-{h}-{os.getpid()}.in.json")
        with open(inp, "w") as f:
            json.dump(recipe, f)
        tmp = out + f".{os.getpid()}"
        r = subprocess.run([sys.executable, "-m", "vq.props.c10ops", inp, tmp], timeout=300, capture_output=True, text=True)
        if r.returncode != 0 or not os.path.exists(tmp):
            raise RuntimeError(f"fresh interpreter failed: {r.stderr[-500:]}")
        os.replace(tmp, out)
    with open(out) as f:
        return json.load(f)


def _defaults_snapshot():
    import qlasskit
    from qlasskit import qlassfun
    from qlasskit.ast2logic import t_ast, t_expression
    from qlasskit.decompiler import decompiler
    from qlasskit.qcircuit import qcircuit, qcircuitenhanced

    fns = {
        "qlassf": qlassfun.qlassf, "qlassfa": qlassfun.qlassfa, "from_function": qlassfun.QlassF.from_function, "decompose_to_symbols": t_expression.decompose_to_symbols,
        "translate_ast": t_ast.translate_ast, "DecompilerResults.__init__": decompiler.DecompilerResults.__init__, "uncompute_all": qcircuitenhanced.QCircuitEnhanced.uncompute_all,
        "uncompute": qcircuitenhanced.QCircuitEnhanced.uncompute, "append_circuit": qcircuit.QCircuit.append_circuit,
    }
    out = {}
    for nm, fn in fns.items():
        fn = getattr(fn, "__func__", fn)
        out[nm] = repr([d for d in (fn.__defaults__ or ()) if isinstance(d, (list, dict, set))])
    return out


def _globals_snapshot():
    import qlasskit
    from qlasskit import qlassfun
    from qlasskit.ast2logic import t_ast, t_expression, t_statement

    snap = {}
    for m in (qlassfun, t_ast, t_expression, t_statement, qlasskit):
        for k, v in vars(m).items():
            snap[(m.__name__, k)] = id(v)
    return snap


def check(case):
    ops = case["ops"]
    key = json.dumps(ops)
    cnt, fails = {}, []
    g0 = _globals_snapshot()
    d0 = _defaults_snapshot()
    cnt["globals_snapshots"] = 1
    objs = []
    fps = []
    kinds = set()
    reuse = 0
    used = set()

    def fail(kind, msg):
        if len(fails) < 5:
            fails.append({"kind": kind, "msg": f"{msg}; history={ops}", "pred": None})

    for i, op in enumerate(ops):
        kinds.add(op[0])
        for x in operands(op):
            if x in used:
                reuse += 1
            used.add(x)
        try:
            o = O.exec_op(op, objs)
            res = {"ok": O.fingerprint(o)}
        except Exception as e:
            o = None
            res = {"raises": type(e).__name__}
        cnt["operations"] = cnt.get("operations", 0) + 1
        # (a) every other live object is unchanged
        for j, (oj, fj) in enumerate(zip(objs, fps)):
            if oj is None:
                continue
            cnt["live_fingerprints_reread"] = cnt.get("live_fingerprints_reread", 0) + 1
            now = O.fingerprint(oj)
            if now != fj:
                diff = [k for k in now if now.get(k) != fj.get(k)]
                fail("operand_modified", f"operation {i} {op} changed live object {j} ({ops[j]}) in fields {diff}")
                fps[j] = now
        objs.append(o)
        fps.append(O.fingerprint(o) if o is not None else None)
        # (b)/(c) same operation alone in a fresh interpreter
        try:
            ref = fresh(closure(ops, i))
            cnt["fresh_process_comparisons"] = cnt.get("fresh_process_comparisons", 0) + 1
            a, b = json.loads(json.dumps(res, default=str)), ref
            if ("raises" in a) != ("raises" in b):
                fail("history_dependent_failure", f"operation {i} {op}: in the history -> {a if 'raises' in a else 'ok'}, alone in a fresh interpreter -> {b if 'raises' in b else 'ok'}")
            elif a != b:
                fa, fb = a.get("ok", a), b.get("ok", b)
                diff = [k for k in fa if isinstance(fa, dict) and isinstance(fb, dict) and fa.get(k) != fb.get(k)]
                fail("history_dependent_result", f"operation {i} {op}: result differs from the same operation alone in a fresh interpreter in fields {diff}: {str({k: (fa.get(k), fb.get(k)) for k in diff})[:400]}")
        except Exception as e:
            return {"status": "error", "key": key, "error": f"fresh reference failed: {e}"}
        # (d) module globals / mutable defaults
        g1 = _globals_snapshot()
        rebound = [k for k, v in g0.items() if k in g1 and g1[k] != v]
        if rebound:
            fail("library_global_rebound", f"operation {i} {op} rebound library globals {rebound[:6]}")
            g0 = g1
        d1 = _defaults_snapshot()
        cnt["defaults_checked"] = cnt.get("defaults_checked", 0) + len(d1)
        if d1 != d0:
            fail("mutable_default_changed", f"operation {i} {op} changed mutable default arguments: {[k for k in d1 if d1[k] != d0[k]]}")
            d0 = d1
    return {"status": "checked", "key": key, "nontrivial": len(ops) >= 4 and len(kinds) >= 3 and reuse >= 1, "evals": len(ops), "fails": fails, "counters": cnt,
            "cov": [f"op:{k}" for k in kinds], "sample": ops}
