"""C12 — the circuit boolean optimizer returns an equivalent, no larger circuit (section 5.12)."""
import random

import numpy as np

from ..gen import circuits as GC
from ..oracles import revsim, statevec
from ..oracles.space import Space

ID = "C12"
LEVEL = "exploration"
RULE = (
    "case = one circuit (random over the full gate set, structured shapes incl. relabelling sections and cancelling pairs, circuits of compiled "
    "functions) given to circuit_boolean_optimizer without a preserve list; unitaries compared exactly (<=7 qubits; basis-state action for purely "
    "classical circuits up to 14), gate counts and input immutability checked; non-trivial = the optimizer re-synthesised and spliced >=1 section "
    "or the circuit has a classical run of >=2 gates; distinct by gate list"
)
PREIMPORT = ["numpy"]
DECIDING = ["optimized", "unitaries_compared", "sections_resynthesised"]
ASSUMPTIONS = ["own numpy state-vector simulator (cross-checked against qiskit in the self-test)"]
CASE_TIMEOUT = {"quick": 60, "thorough": 120}
_hook = {"n": 0, "installed": False}


def setup():
    # recording wrapper: how many sections did the optimizer actually re-synthesise
    from qlasskit.decompiler import decopt

    if _hook["installed"]:
        return
    _hook["installed"] = True
    orig = decopt.exprs_to_quantum

    def rec(*a, **k):
        _hook["n"] += 1
        return orig(*a, **k)

    decopt.exprs_to_quantum = rec


CORPUS12 = [
    # several simplifiable sections, the earlier one with a barrier inside / two barriers after it
    {"nq": 2, "gates": [["x", [0], None], ["barrier", [], None], ["cx", [0, 1], None], ["x", [0], None], ["cx", [0, 1], None], ["h", [0], None], ["x", [0], None], ["x", [0], None], ["x", [1], None]]},
    {"nq": 2, "gates": [["x", [1], None], ["x", [0], None], ["x", [1], None], ["barrier", [], None], ["barrier", [], None], ["h", [0], None], ["x", [0], None]]},
    {"nq": 3, "gates": [["x", [2], None], ["barrier", [], None], ["x", [2], None], ["h", [1], None], ["ccx", [0, 1, 2], None], ["h", [0], None], ["x", [1], None], ["cx", [1, 2], None], ["x", [1], None], ["cx", [1, 2], None]]},
    # the same MCX twice with a control changed in between
    {"nq": 4, "gates": [["mcx", [0, 1, 2, 3], None], ["x", [0], None], ["mcx", [0, 1, 2, 3], None]]},
    {"nq": 4, "gates": [["mcx", [0, 1, 2, 3], None], ["x", [0], None], ["mcx", [0, 1, 2, 3], None], ["x", [0], None]]},
    {"nq": 5, "gates": [["h", [4], None], ["mcx", [0, 1, 2], None], ["cx", [3, 1], None], ["mcx", [0, 1, 2], None], ["cx", [3, 1], None], ["h", [4], None]]},
    # open-control Toffoli sections and negated xors
    {"nq": 3, "gates": [["x", [2], None], ["ccx", [0, 1, 2], None], ["x", [0], None], ["ccx", [0, 1, 2], None], ["x", [0], None]]},
    {"nq": 2, "gates": [["cx", [0, 1], None], ["x", [1], None], ["cx", [0, 1], None], ["x", [1], None]]},
    # a swap written with three CX next to an independent NOT (relabelling must not be accepted)
    {"nq": 3, "gates": [["cx", [0, 1], None], ["cx", [1, 0], None], ["cx", [0, 1], None], ["x", [2], None]]},
]


def cases(tier, seed):
    for c in CORPUS12:
        yield {"kind": "circ", "circ": c, "origin": "corpus"}
    rng = random.Random(12000 + seed)
    for c in GC.structured(random.Random(5)):
        yield {"kind": "circ", "circ": c, "origin": "structured"}
    n = 900 if tier == "quick" else 12000
    for i in range(n):
        r = rng.random()
        if r < 0.5:
            c = GC.rand_circuit(rng, nq=rng.randint(2, 5), pool=["x", "cx", "ccx", "x", "cx", "mcx", "barrier"], p_classical=1.0)
        else:
            c = GC.rand_circuit(rng, nq=rng.randint(2, 6))
        yield {"kind": "circ", "circ": c, "origin": "random"}
    # permutation sections mixed with independent work on other qubits
    for i in range(200 if tier == "quick" else 2500):
        nq = rng.randint(3, 5)
        a, b = rng.sample(range(nq), 2)
        sw = [["cx", [a, b], None], ["cx", [b, a], None], ["cx", [a, b], None]]
        others = [q for q in range(nq) if q not in (a, b)]
        extra = []
        for _ in range(rng.randint(1, 3)):
            r = rng.random()
            if r < 0.5 or len(others) < 2:
                extra.append(["x", [rng.choice(others)], None])
            elif r < 0.8:
                extra.append(["cx", rng.sample(others, 2), None])
            else:
                extra.append(["cx", [rng.choice([a, b]), rng.choice(others)], None])
        gl = list(sw)
        for g in extra:
            gl.insert(rng.randint(0, len(gl)), g)
        if rng.random() < 0.3:
            gl = [["h", [rng.randrange(nq)], None]] + gl + [["h", [rng.randrange(nq)], None]]
        yield {"kind": "circ", "circ": {"nq": nq, "gates": gl}, "origin": "permutation+"}
    # small scope, exhaustive: every circuit of <=4 gates over {X, CX, CCX} on 3 qubits
    import itertools

    atoms = [["x", [q], None] for q in range(3)] + [["cx", [a, b], None] for a, b in itertools.permutations(range(3), 2)] + [["ccx", [c for c in range(3) if c != t] + [t], None] for t in range(3)]
    for L in range(1, 5):
        for combo in itertools.product(atoms, repeat=L):
            yield {"kind": "circ", "circ": {"nq": 3, "gates": [list(g) for g in combo]}, "origin": "enum4"}
    # the same small scope with MCX-class gates (qc.mcx: another class and another decompiler branch than CCX), both control orders
    atoms2 = [["x", [q], None] for q in range(3)] + [["cx", [a, b], None] for a, b in itertools.permutations(range(3), 2)] + \
             [["mcx", [a, b, t], None] for t in range(3) for a, b in itertools.permutations([c for c in range(3) if c != t], 2)]
    for L in range(1, 4 if tier == "quick" else 5):
        for combo in itertools.product(atoms2, repeat=L):
            if any(g[0] == "mcx" for g in combo):
                yield {"kind": "circ", "circ": {"nq": 3, "gates": [list(g) for g in combo]}, "origin": "enum_mcx"}
    # directed: the same multi-controlled gate twice with one of its controls changed in between (and possibly restored after)
    for _ in range(60 if tier == "quick" else 600):
        nq = rng.randint(4, 6)
        k = rng.randint(2, nq - 1)
        wires = rng.sample(range(nq), k + 1)
        ctl, tg = wires[:-1], wires[-1]
        others = [q for q in range(nq) if q not in wires]
        c0 = rng.choice(ctl)
        mid = rng.choice([[["x", [c0], None]], [["cx", [rng.choice([q for q in range(nq) if q != c0 and q != tg] or [tg]), c0], None]], [["x", [c0], None], ["x", [rng.choice(ctl)], None]]])
        gl = [["mcx", ctl + [tg], None]] + mid + [["mcx", ctl + [tg], None]]
        if rng.random() < 0.6:
            gl += list(reversed(mid))
        if rng.random() < 0.3:
            h = ["h", [rng.choice(others or [tg])], None]
            gl = [h] + gl + [h]
        yield {"kind": "circ", "circ": {"nq": nq, "gates": gl}, "origin": "mcx_twice"}
    from ..gen import programs as P

    pg = P.PG(rng, P.small_cfg(max_bits=4, depth=2, stmts=1))
    for _ in range(30 if tier == "quick" else 300):
        yield {"kind": "compiled", "src": pg.program()["src"], "origin": "compiled"}


def _sig(qc):
    return [(type(g).__name__, list(w), p) for g, w, p in qc.gates]


def check(case):
    from qlasskit.decompiler import circuit_boolean_optimizer

    setup()
    if case["kind"] == "compiled":
        from qlasskit import qlassf

        try:
            qc = qlassf(case["src"], to_compile=True).circuit()
        except Exception:
            return {"status": "rejected", "key": case["src"]}
        key, sample = case["src"], case["src"]
    else:
        qc = GC.build(case["circ"])
        key, sample = str(case["circ"]), case["circ"]
    nq = qc.num_qubits
    classical = all(revsim.is_classical(g) for g, w, p in qc.gates)
    if nq > (14 if classical else 7):
        return {"status": "skipped", "key": key}
    before, map_before = _sig(qc), dict(qc.qubit_map)
    fails, cnt = [], {}
    n0 = _hook["n"]
    try:
        out = circuit_boolean_optimizer(qc)
    except Exception as e:
        pred = "c12_resynthesis_raises" if "duplicate qubit" in str(e) else None
        return {"status": "checked", "key": key, "nontrivial": True, "evals": 1, "counters": {"optimized": 1, "raised": 1},
                "fails": [{"kind": "optimizer_exception", "msg": f"{type(e).__name__}: {e} on {sample}", "pred": pred}], "sample": sample}
    cnt["optimized"] = 1
    cnt["sections_resynthesised"] = _hook["n"] - n0
    if _sig(qc) != before or dict(qc.qubit_map) != map_before:
        fails.append({"kind": "input_modified", "msg": f"the input circuit was modified: {sample}", "pred": None})
    if out.num_qubits != nq:
        fails.append({"kind": "num_qubits", "msg": f"result has {out.num_qubits} qubits, input {nq}", "pred": None})
    elif any(q >= nq for g, w, p in out.gates for q in w):
        fails.append({"kind": "qubit_out_of_range", "msg": f"result uses a qubit >= {nq}: {_sig(out)}", "pred": None})
    else:
        cnt["unitaries_compared"] = 1
        try:
            if classical and all(revsim.is_classical(g) for g, w, p in out.gates):
                sp = Space(nq)
                a = revsim.run(qc.gates, [sp.var(q) for q in range(nq)], sp)
                b = revsim.run(out.gates, [sp.var(q) for q in range(nq)], sp)
                same = a == b
            else:
                same = statevec.same_unitary(statevec.unitary(qc.gates, nq), statevec.unitary(out.gates, nq))
        except statevec.UnknownGate as e:
            return {"status": "skipped", "key": key, "counters": {"unknown_gate": 1}}
        if not same:
            spliced = _sig(out) != before
            fails.append({"kind": "not_equivalent", "msg": f"optimized circuit {_sig(out)} is not equivalent to {before}", "pred": "c12_relabelling_section_dropped" if _is_relabel_drop(qc, out) else None})
    if out.num_gates > qc.num_gates:
        fails.append({"kind": "more_gates", "msg": f"{out.num_gates} gates > {qc.num_gates}", "pred": None})
    changed = _sig(out) != before
    if changed:
        cnt["circuits_changed"] = 1
    return {"status": "checked", "key": key, "nontrivial": bool(changed or cnt["sections_resynthesised"]), "evals": 1 << nq, "fails": fails[:3], "counters": cnt,
            "cov": [f"origin:{case['origin']}", "classical" if classical else "mixed"], "sample": sample}


def _is_relabel_drop(qc, out):
    """signature of the listed finding: some classical run whose action is a pure relabelling (permutation of qubits,
    possibly with negations: every changed qubit ends as another qubit's entry value) was replaced by nothing"""
    from .c11 import runs_of

    nq = qc.num_qubits
    sp = Space(nq)
    gates0 = list(qc.gates)
    for run in runs_of(gates0):
        st = [sp.var(q) for q in range(nq)]
        revsim.run([gates0[i] for i in run], st, sp)
        changed = [q for q in range(nq) if st[q] != sp.var(q)]
        if changed and all(any(st[q] == sp.var(r) for r in range(nq)) for q in changed):
            return True
    return False
