"""C07 — calling one compiled function from another is function composition (section 5.7)."""
import random

from ..oracles import boolvec, codec, refsem
from ..oracles.space import make_space
from . import progsem

ID = "C07"
LEVEL = "exploration"
RULE = (
    "case = one (callee, caller) pair: callee over bool/Qint/tuple arguments and returns; caller passes variables, tuple elements of every type, repeated "
    "and swapped arguments, several calls, via defs=, inline def, or oraclize; hostile naming (caller variables named like the callee's renamed formals); "
    "caller expressions compared on every input with the caller's Python source run by CPython with the callee's Python function in scope; callee "
    "fingerprint re-read; non-trivial = caller accepted and its result depends on an input; distinct by source pair"
)
DECIDING = ["callers_accepted", "rows_judged", "callee_fingerprints_checked", "oraclize_checked"]
ASSUMPTIONS = ["argument expressions other than names / constant subscripts (g(a+1), g(g(a))) are outside the stated shapes: rejection is admissible and only counted"]
CASE_TIMEOUT = {"quick": 40, "thorough": 120}


def ann(t):
    return codec.annotation(t, 1)


CALLEES = [
    # (name, params [(name, type)], ret type, body)
    ("g", [("x", "bool"), ("y", "bool")], "bool", "return x and not y"),
    ("g", [("x", "bool"), ("y", "bool")], "bool", "return x ^ y"),
    ("g", [("x", "Qint2"), ("y", "Qint2")], "bool", "return x > y"),
    ("g", [("x", "Qint2"), ("y", "Qint2")], "Qint2", "return x + y"),
    ("g", [("x", "Qint2"), ("y", "Qint2")], "Qint2", "return x - y"),
    ("g", [("x", "Qint2")], "Qint2", "return x + 1"),
    ("g", [("x", "Qint3")], "bool", "return x[0] ^ x[2]"),
    ("g", [("x", "Qint2"), ("y", "bool")], "Qint2", "return (x + 1) if y else x"),
    ("g", [("x", ["bool", "bool"])], "bool", "return x[0] and x[1]"),
    ("g", [("x", ["Qint2", "bool"])], "Qint2", "return x[0] if x[1] else 3"),
    ("g", [("x", "Qint2"), ("y", "Qint2")], ["Qint2", "bool"], "return (x ^ y, x == y)"),
    ("g", [("x", "bool"), ("y", "bool")], ["bool", "bool"], "return (y, x)"),
    ("g", [("x", "Qint2")], "Qint4", "c = x * x\n    return c"),
    ("h", [("a", "Qint2"), ("b", "Qint2")], "Qint2", "return a & ~b"),
    ("h", [("a", "bool"), ("b", "bool"), ("c", "bool")], "bool", "return (a and b) or (b and c) or (a and c)"),
    ("max3", [("x", "Qint2"), ("y", "Qint2")], "Qint2", "return x if x > y else y"),
    # wide returns: more than ten return bits / tuple elements at one index level
    ("w", [("x", "Qint12")], "Qint12", "return x << 1"),
    ("w", [("x", "Qint8")], "Qint16", "return x * 3"),
    ("w", [("x", "Qint6"), ("y", "Qint6")], "Qint12", "return x * y"),
    ("w", [("x", "Qint4"), ("y", "bool")], ["bool"] * 12, "return (x[0], x[1], x[2], x[3], y, not y, x[0] ^ y, x[1] & y, x[2] | y, x[3], not x[0], x[1] ^ x[2])"),
    ("w", [("x", "Qint2"), ("y", "Qint2")], ["Qint2"] * 11, "return (x, y, x + y, x ^ y, x & y, x | y, x + 1, y + 1, x - y, y - x, x)"),
    # callee variables that already carry the callee's own renaming prefix
    ("g", [("g_x", "bool"), ("x", "bool")], "bool", "return g_x and not x"),
    ("g", [("x", "Qint2"), ("g_x", "Qint2")], "Qint2", "return x - g_x"),
    ("h", [("h_in", "Qint2")], "Qint2", "return h_in + 1"),
    ("g", [("x", "bool"), ("y", "bool")], "bool", "g_x = x ^ y\n    return g_x and x"),
    ("g", [("g__ret", "bool"), ("y", "bool")], "bool", "return g__ret or y"),
    # callees that reassign their own parameters / use statements
    ("g", [("x", "Qint2"), ("y", "bool")], "Qint2", "x = (x + 1) if y else x\n    c = x + 1\n    return c"),
    ("g", [("x", "Qint2"), ("y", "Qint2")], "Qint2", "x = x + y\n    y = y + x\n    return x ^ y"),
    ("g", [("x", "bool"), ("y", "bool")], "bool", "x = x ^ y\n    y = x and y\n    return x or y"),
    ("g", [("x", "Qint2")], "Qint2", "x += 1\n    x += x\n    return x"),
    ("g", [("x", "Qint2"), ("y", "bool")], "Qint2", "if y:\n        x = x + 1\n    else:\n        x = x ^ 1\n    return x"),
    ("g", [("x", ["Qint2", "Qint2"])], "Qint2", "s = 0\n    for e in x:\n        s += e\n    return s"),
]


def callee_src(c):
    name, params, ret, body = c
    return f"def {name}({', '.join(f'{n}: {ann(t)}' for n, t in params)}) -> {ann(ret)}:\n    {body}\n"


def gen_pair(rng, hostile=False):
    c = rng.choice(CALLEES)
    name, params, ret, body = c
    # caller arguments: enough material to build actuals of each parameter type
    pool_names = ["a", "b", "c", "d", "t", "u"]
    if hostile:
        pool_names = [f"{name}_{p[0]}" for p in reversed(params)] + [f"{name}_x", f"{name}_y", "x", "y", f"{name}__ret", "_ret"][:4] + pool_names
    cargs = []
    env = {}

    def add(t):
        n = [x for x in pool_names if x not in env][0]
        env[n] = t
        cargs.append([n, t])
        return n

    actual_lists = []
    ncalls = rng.choice([1, 1, 2])
    for _ in range(ncalls):
        actuals = []
        for pn, pt in params:
            r = rng.random()
            # reuse an existing variable of the right type (repeated / swapped arguments)
            same = [n for n, t in env.items() if t == pt]
            elems = [(f"{n}[{k}]") for n, t in env.items() if isinstance(t, list) for k, x in enumerate(t) if x == pt]
            if same and r < 0.45:
                actuals.append(rng.choice(same))
            elif elems and r < 0.7:
                actuals.append(rng.choice(elems))
            elif r < 0.85 and not isinstance(pt, list):
                # introduce a tuple argument holding an element of that type
                other = rng.choice(["bool", "Qint2", "Qint3"])
                tt = [pt, other] if rng.random() < 0.5 else [other, pt]
                n = add(tt)
                actuals.append(f"{n}[{tt.index(pt)}]")
            else:
                actuals.append(add(pt))
        actual_lists.append(actuals)
    calls = [f"{name}({', '.join(a)})" for a in actual_lists]
    # caller body
    lines = []
    rt = ret
    if isinstance(ret, list):
        lines.append(f"    r = {calls[0]}")
        k = rng.randrange(len(ret))
        form = rng.random()
        if form < 0.4:
            expr, rt = "r", ret
        else:
            expr, rt = f"r[{k}]", ret[k]
        if len(calls) > 1:
            lines.append(f"    s = {calls[1]}")
    elif ret == "bool":
        if len(calls) == 1:
            expr = rng.choice([calls[0], f"not {calls[0]}"])
        else:
            expr = f"{calls[0]} {rng.choice(['and', 'or', '^'])} {calls[1]}"
    else:
        if len(calls) == 1:
            expr = rng.choice([calls[0], f"{calls[0]} + 1"]) if rng.random() < 0.5 else calls[0]
            if expr.endswith("+ 1"):
                lines.append(f"    r = {calls[0]}")
                expr = "r + 1"
        else:
            lines.append(f"    r = {calls[0]}")
            lines.append(f"    s = {calls[1]}")
            expr = f"r {rng.choice(['+', '^', '&'])} s"
    # the result of the call assigned back to one of its own plain-variable arguments (a = g(a, b))
    if not isinstance(ret, list) and rng.random() < 0.35:
        selfargs = [a for a in actual_lists[0] if a.isidentifier() and env.get(a) == ret]
        if selfargs:
            v = rng.choice(selfargs)
            lines = [f"    {v} = {calls[0]}"]
            if len(calls) > 1 and rng.random() < 0.5:
                lines.append(f"    {v} = {name}({', '.join(v if (a.isidentifier() and env.get(a) == ret) else a for a in actual_lists[1])})")
            expr = v
            rt = ret
    inline = rng.random() < 0.25
    sig = ", ".join(f"{n}: {ann(t)}" for n, t in cargs)
    src = f"def f({sig}) -> {ann(rt)}:\n"
    if inline:
        inner = callee_src(c).replace("\n    ", "\n        ").rstrip("\n")
        src += "    " + inner.replace("\n", "\n") + "\n"
    src += "".join(l + "\n" for l in lines) + f"    return {expr}\n"
    return {"kind": "pair", "callee": callee_src(c), "callee_name": name, "caller": src, "args": cargs, "ret": rt, "inline": inline, "hostile": hostile}


def shadow_pair(rng, i):
    bops = ["x and y", "x or y", "x ^ y", "x and not y", "not x or y", "not (x ^ y)"]
    iops = ["x + y", "x ^ y", "x + 1", "y + 3", "(x & y) + 1", "x | y"]
    ty = rng.choice(["bool", "Qint2"])
    a_, ops = (("bool", bops) if ty == "bool" else ("Qint[2]", iops))
    b1, b2 = rng.sample(ops, 2)
    callee = f"def g(x: {a_}, y: {a_}) -> {a_}:\n    return {b1}\n"
    inner = f"    def g(x: {a_}, y: {a_}) -> {a_}:\n        return {b2}\n"
    comb = "^"
    form = i % 4
    if form == 0:  # inline def shadows the defs= entry
        body, inline = inner + f"    return g(a, b) {comb} c\n", False
    elif form == 1:  # defs= version called first, then shadowed
        body, inline = f"    r = g(a, b)\n" + inner + f"    return r {comb} g(b, c)\n", False
    elif form == 2:  # inline helper redefined between two calls
        inner1 = f"    def g(x: {a_}, y: {a_}) -> {a_}:\n        return {b1}\n"
        body, inline = inner1 + f"    r = g(a, b)\n" + inner + f"    return r {comb} g(a, c)\n", True
    else:  # redefinition before any call
        inner1 = f"    def g(x: {a_}, y: {a_}) -> {a_}:\n        return {b1}\n"
        body, inline = inner1 + inner + f"    return g(c, a) {comb} b\n", True
    src = f"def f(a: {a_}, b: {a_}, c: {a_}) -> {a_}:\n" + body
    t = "bool" if ty == "bool" else "Qint2"
    return {"kind": "pair", "callee": callee, "callee_name": "g", "caller": src, "args": [["a", t], ["b", t], ["c", t]], "ret": t, "inline": inline, "hostile": False, "shadow": True}


def mistyped_pair(rng, i):
    w1, w2 = rng.choice([(2, 4), (4, 2), (2, 3), (3, 2), (2, 6)])
    body = rng.choice(["y + x", "x ^ y", "(x & y) + 1", "y if x == 1 else x", "x + x + y"])
    wr = max(w1, w2)
    callee = f"def g(x: Qint[{w1}], y: Qint[{w2}]) -> Qint[{wr}]:\n    return {body}\n"
    form = i % 4
    inline = form == 3
    if form == 0:
        sig, args, call = f"a: Qint[{w2}], b: Qint[{w1}]", [["a", f"Qint{w2}"], ["b", f"Qint{w1}"]], "g(a, b)"
    elif form == 1:
        sig, args, call = f"t: Tuple[Qint[{w1}], Qint[{w2}]]", [["t", [f"Qint{w1}", f"Qint{w2}"]]], "g(t[1], t[0])"
    elif form == 2:
        sig, args, call = f"a: Qint[{w2}], b: Qint[{w1}], c: bool", [["a", f"Qint{w2}"], ["b", f"Qint{w1}"], ["c", "bool"]], "g(a, b) if c else g(b, a)"
    else:
        sig, args, call = f"a: Qint[{w2}], b: Qint[{w1}]", [["a", f"Qint{w2}"], ["b", f"Qint{w1}"]], "g(a, b)"
    src = f"def f({sig}) -> Qint[{wr}]:\n"
    if inline:
        src += "    " + callee.replace("\n    ", "\n        ").rstrip("\n") + "\n"
    src += f"    return {call}\n"
    return {"kind": "pair", "callee": callee, "callee_name": "g", "caller": src, "args": args, "ret": f"Qint{wr}", "inline": inline, "hostile": False, "mistyped": True}


def setup():
    from ..monitors import reach

    reach.install_paths(['qlasskit.ast2logic.env:Env.bind_function', 'qlasskit.qlassfun:QlassF.to_logicfun', 'qlasskit.algorithms.qalgorithm:oraclize'])


def cases(tier, seed):
    rng = random.Random(7000 + seed)
    for c in CORPUS:
        yield c
    n = 500 if tier == "quick" else 6000
    for i in range(n):
        yield gen_pair(rng, hostile=(i % 5 == 0))
    # a callee name bound twice in the caller's scope: Python calls the latest binding
    for i in range(16 if tier == "quick" else 160):
        yield shadow_pair(rng, i)
    # actual arguments whose widths do not match the formals one by one although the totals agree (swapped order):
    # the library may reject the call; if it accepts it, the caller must still mean the callee applied to the values
    for i in range(12 if tier == "quick" else 120):
        yield mistyped_pair(rng, i)
    # oraclize
    for c in CALLEES:
        name, params, ret, body = c
        if len(params) == 1 and not isinstance(ret, list):
            vals = [True, False] if ret == "bool" else list(range(1 << int(ret[4:])))[:5]
            for v in vals:
                yield {"kind": "oraclize", "callee": callee_src(c), "callee_name": name, "param": params[0], "ret": ret, "element": v}
                yield {"kind": "oraclize", "callee": callee_src(c).replace(f"def {name}(", "def oracle("), "callee_name": "oracle", "param": params[0], "ret": ret, "element": v}


CORPUS = [
    # a call result stored inside a tuple literal and read back by nested subscripts
    {"kind": "pair", "callee": "def g(a: Qint[2], b: bool) -> Tuple[Qint[2], bool]:\n    return (a + 1, not b)\n", "callee_name": "g",
     "caller": "def f(x: Qint[2], y: bool) -> Tuple[bool, Qint[2]]:\n    c = (g(x, y), y)\n    return (c[0][1], c[0][0])\n", "args": [["x", "Qint2"], ["y", "bool"]], "ret": ["bool", "Qint2"], "inline": False, "hostile": False},
    {"kind": "pair", "callee": "def g(a: Qint[2], b: bool) -> Tuple[bool, Qint[2]]:\n    return (b, a ^ 1)\n", "callee_name": "g",
     "caller": "def f(x: Qint[2], y: bool) -> Qint[2]:\n    c = (y, g(x, y), g(x, not y))\n    return c[1][1] + c[2][1] if c[1][0] else c[2][1]\n", "args": [["x", "Qint2"], ["y", "bool"]], "ret": "Qint2", "inline": False, "hostile": False},
    {"kind": "pair", "callee": "def g(a: Qint[2], b: bool) -> Tuple[Qint[2], bool]:\n    return (a + 1, not b)\n", "callee_name": "g",
     "caller": "def f(x: Qint[2], y: bool) -> bool:\n    def g(a: Qint[2], b: bool) -> Tuple[Qint[2], bool]:\n        return (a + 1, not b)\n    c = (g(x, y), g(x, y))\n    return c[0][1] ^ (c[1][0] == 2)\n", "args": [["x", "Qint2"], ["y", "bool"]], "ret": "bool", "inline": True, "hostile": False},
    {"kind": "pair", "callee": "def g(x: Qint[2], y: Qint[2]) -> Qint[2]:\n    return x + y\n", "callee_name": "g",
     "caller": "def f(a: Qint[2], b: Qint[2]) -> Qint[2]:\n    a = g(a, b)\n    return a\n", "args": [["a", "Qint2"], ["b", "Qint2"]], "ret": "Qint2", "inline": False, "hostile": False},
    {"kind": "pair", "callee": "def g(x: Qint[2], y: Qint[2]) -> Qint[2]:\n    return x + y\n", "callee_name": "g",
     "caller": "def f(a: Qint[2], b: Qint[2]) -> Qint[2]:\n    a = g(b, a)\n    a = g(a, a)\n    return a\n", "args": [["a", "Qint2"], ["b", "Qint2"]], "ret": "Qint2", "inline": False, "hostile": False},
    {"kind": "pair", "callee": "def k(x: Qint[2]) -> Qint[2]:\n    return x + 1\n", "callee_name": "k",
     "caller": "def f(a: Qint[2], b: Qint[2]) -> Qint[2]:\n    def k(x: Qint[2]) -> Qint[2]:\n        return x + 1\n    b = k(b)\n    return a ^ b\n", "args": [["a", "Qint2"], ["b", "Qint2"]], "ret": "Qint2", "inline": True, "hostile": False},
    {"kind": "pair", "callee": "def g(x: Qint[2], y: Qint[2]) -> Qint[2]:\n    return x - y\n", "callee_name": "g",
     "caller": "def f(g_y: Qint[2], g_x: Qint[2]) -> Qint[2]:\n    return g(g_y, g_x)\n", "args": [["g_y", "Qint2"], ["g_x", "Qint2"]], "ret": "Qint2", "inline": False, "hostile": True},
    {"kind": "pair", "callee": "def g(x: Qint[2]) -> Qint[2]:\n    return x + 1\n", "callee_name": "g",
     "caller": "def f(t: Tuple[Qint[2], bool]) -> Qint[2]:\n    return g(t[0])\n", "args": [["t", ["Qint2", "bool"]]], "ret": "Qint2", "inline": False, "hostile": False},
    {"kind": "pair", "callee": "def g(x: bool, y: bool) -> Tuple[bool, bool]:\n    return (y, x)\n", "callee_name": "g",
     "caller": "def f(a: bool, b: bool) -> Tuple[bool, bool]:\n    return g(a, b)\n", "args": [["a", "bool"], ["b", "bool"]], "ret": ["bool", "bool"], "inline": False, "hostile": False},
    {"kind": "pair", "callee": "def g(x: Qint[2], y: Qint[2]) -> Tuple[Qint[2], bool]:\n    return (x ^ y, x == y)\n", "callee_name": "g",
     "caller": "def f(a: Qint[2], b: Qint[2]) -> bool:\n    r = g(a, b)\n    return r[1]\n", "args": [["a", "Qint2"], ["b", "Qint2"]], "ret": "bool", "inline": False, "hostile": False},
]


def fingerprint(qf):
    return (qf.name, [(a.name, str(a.ttype), list(a.bitvec)) for a in qf.args], (qf.returns.name, str(qf.returns.ttype), list(qf.returns.bitvec)),
            [(str(s), str(e)) for s, e in qf.expressions])


def check(case):
    from ..monitors import reach

    r = _check_inner(case)
    if isinstance(r, dict):
        r.setdefault("counters", {}).update(reach.take())
    return r


def _check_inner(case):
    from qlasskit import qlassf

    if case["kind"] == "oraclize":
        return check_oraclize(case)
    cnt, fails = {}, []
    key = case["callee"] + case["caller"]
    cov = ["inline" if case["inline"] else "defs", "hostile" if case["hostile"] else "plain"]
    try:
        g = qlassf(case["callee"], to_compile=False)
    except Exception as e:
        return {"status": "rejected", "key": key, "counters": {"callee_rejected": 1}}
    fp0 = fingerprint(g)
    try:
        if case["inline"]:
            f = qlassf(case["caller"], to_compile=False)
        else:
            f = qlassf(case["caller"], defs=[g], to_compile=False)
    except Exception as e:
        cnt[f"caller_rejected:{type(e).__name__}"] = 1
        if fingerprint(g) != fp0:
            fails.append({"kind": "callee_modified", "msg": f"callee changed by a rejected call site: {case['caller']}", "pred": None})
        return {"status": "rejected" if not fails else "checked", "key": key, "counters": cnt, "cov": cov, "fails": fails, "error": f"{type(e).__name__}: {str(e)[:150]}"}
    cnt["callers_accepted"] = 1
    cnt["callee_fingerprints_checked"] = 1
    if fingerprint(g) != fp0:
        fails.append({"kind": "callee_modified", "msg": f"callee fingerprint changed by being passed in defs=: before {fp0} after {fingerprint(g)}", "pred": None})
    args, ret = case["args"], case["ret"]
    n = progsem.arg_bits(args)
    sp = make_space(n, limit=12)
    # reference: caller's Python source with the callee's Python function in scope
    try:
        extra = {}
        if not case["inline"]:
            extra[case["callee_name"]] = refsem.make_ref(case["callee"])
        rt = progsem.ref_table(case["caller"], args, ret, sp, extra=extra, fname="f")
    except refsem.Unsupported:
        return {"status": "skipped", "key": key, "counters": dict(cnt, ref_unsupported=1)}
    tabs, probs = progsem.lib_tables(f, sp)
    for kind, msg in probs:
        fails.append({"kind": kind, "msg": f"{msg}; callee:\n{case['callee']}caller:\n{case['caller']}exprs={[(str(s), str(e)) for s, e in f.expressions][:8]}", "pred": None})
    nontrivial = False
    if tabs is not None and not probs:
        if len(tabs) != codec.size(ret):
            fails.append({"kind": "signature", "msg": f"{len(tabs)} return bits for {ret}", "pred": None})
        else:
            cnt["rows_judged"] = rt.defined
            for j, t in enumerate(tabs):
                if t not in (0, sp.ALL):
                    nontrivial = True
                d = (t ^ rt.exp[j]) & rt.req[j]
                if d:
                    k = sp.first(d)
                    fails.append({"kind": "value", "msg": f"return bit {j} is {(t >> k) & 1}, Python composition gives {(rt.exp[j] >> k) & 1} for {progsem.describe_row(args, sp.row(k))}; callee:\n{case['callee']}caller:\n{case['caller']}", "pred": None})
                    break
    return {"status": "checked", "key": key, "nontrivial": nontrivial, "evals": sp.N, "fails": fails[:3], "counters": cnt, "cov": cov, "sample": {"callee": case["callee"], "caller": case["caller"]}}


def check_oraclize(case):
    from qlasskit import qlassf
    from qlasskit.algorithms import oraclize

    cnt, fails = {}, []
    key = case["callee"] + str(case["element"])
    try:
        g = qlassf(case["callee"], to_compile=False)
    except Exception:
        return {"status": "rejected", "key": key}
    fp0 = fingerprint(g)
    pn, pt = case["param"]
    try:
        o = oraclize(g, case["element"])
    except Exception as e:
        if type(e).__name__ == "ConstantOracleException":
            cnt["constant_oracle"] = 1
            o = None
        else:
            return {"status": "checked", "key": key, "nontrivial": True, "evals": 0, "counters": cnt,
                    "fails": [{"kind": "oraclize_exception", "msg": f"{type(e).__name__}: {e} for {case}", "pred": None}]}
    cnt["oraclize_checked"] = 1
    cnt["callee_fingerprints_checked"] = 1
    if fingerprint(g) != fp0:
        fails.append({"kind": "callee_modified", "msg": f"oraclize changed its operand: name {fp0[0]} -> {g.name}", "pred": None})
    n = codec.size(pt)
    sp = make_space(n)
    gref = refsem.make_ref(case["callee"])
    exp = 0
    for k, row in enumerate(sp.iter_rows()):
        v = codec.decode(pt, [(row >> i) & 1 for i in range(n)])
        st = refsem.reset()
        try:
            r = gref(refsem.lift(pt, v))
        except Exception:
            continue
        rv = r if isinstance(r, bool) else r.v % (1 << int(case["ret"][4:]))
        if rv == case["element"]:
            exp |= 1 << k
    if o is None:
        if exp not in (0, sp.ALL):
            fails.append({"kind": "oraclize_constant", "msg": f"ConstantOracleException but g(x) == {case['element']} is not constant", "pred": None})
    else:
        tabs, probs = progsem.lib_tables(o, sp)
        if probs or tabs is None or len(tabs) != 1:
            fails.append({"kind": "oraclize_shape", "msg": f"{probs}", "pred": None})
        elif tabs[0] != exp:
            k = sp.first(tabs[0] ^ exp)
            fails.append({"kind": "oraclize_value", "msg": f"oracle(x) != (g(x) == {case['element']}) at x row {sp.row(k)}; callee:\n{case['callee']}", "pred": None})
    return {"status": "checked", "key": key, "nontrivial": exp not in (0, sp.ALL), "evals": sp.N, "fails": fails, "counters": cnt, "cov": ["oraclize"], "sample": case}
