"""C17 — command-line tools print what the library computes (section 5.17)."""
import contextlib
import io
import itertools
import os
import random
import subprocess
import sys
import tempfile

from ..gen import programs as P
from ..oracles import bexpparse, boolvec
from ..oracles.space import Space

ID = "C17"
LEVEL = "exploration"
RULE = (
    "case = one script with 1-3 @qlassf functions (names in varying alphabetical/definition order) x py2bexp forms {default, anf, cnf, dnf, nnf} x formats {sympy, dimacs} "
    "x entry-point choices, and py2qasm x QASM versions; main() run in-process (patched argv/stdin/stdout) and, for a sample, as a subprocess of the real entry path, via "
    "stdin and -i, stdout and -o; the printed expression is parsed and compared on all assignments with the conjunction of the selected function's return bits, DIMACS by "
    "search for a one-to-one numbering, QASM with the API export; non-trivial = the selected function is non-constant; distinct by (script, options)"
)
DECIDING = ["aliased_entry_points", "py2bexp_runs", "expressions_compared", "dimacs_compared", "py2qasm_runs", "subprocess_runs", "entrypoint_selected"]
ASSUMPTIONS = ["a script with several functions and no -e option is outside the claim (the property only states the single-function case)", "the expression parser follows sympy's printed precedence ~ > & > ^ > |"]
CASE_TIMEOUT = {"quick": 90, "thorough": 240}
FORMS = [None, "anf", "cnf", "dnf", "nnf"]
HEADER = "from qlasskit import qlassf, Qint, Qint2, Qint3, Qint4, Qint5, Qint6, Qint7, Qint8, Qint12, Qint16, Qlist, Qmatrix, Qfixed, Qchar, Parameter\nfrom typing import Tuple\n\n"


def small_fn(rng, name):
    cfg = P.small_cfg(max_bits=4, max_args=2, depth=2, stmts=1)
    cfg.ret_kinds = ["bool", "bool", "int"]
    cfg.widths = [2, 2, 3]
    cfg.p_hostile = 0
    cfg.allow = cfg.allow - {"mul", "pow"}
    pg = P.PG(rng, cfg)
    pr = pg.program(fname=name)
    return pr


def setup():
    from ..monitors import reach

    reach.install_paths(['qlasskit.tools.py2bexp:convert_to_bool_expression', 'qlasskit.tools.py2bexp:convert_to_dimacs', 'qlasskit.tools.py2qasm:convert_to_quasm', 'qlasskit.tools.tools:find_last_qlassf', 'qlasskit.tools.utils:parse_str'])


def cases(tier, seed):
    rng = random.Random(17000 + seed)
    for c in CORPUS:
        yield c
    n = 45 if tier == "quick" else 500
    names_pool = ["f", "g", "alpha", "zeta", "b2", "main", "test", "h"]
    for i in range(n):
        k = rng.choice([1, 1, 2, 3])
        nm = rng.sample(names_pool, k)
        fns = [small_fn(rng, x) for x in nm]
        yield {"kind": "script", "fns": [{"name": x, "src": f["src"]} for x, f in zip(nm, fns)], "sub": i % 9 == 0}


CORPUS = [
    # nested arguments: bits of different elements share their last index (a.0.1 / a.1.1)
    {"kind": "script", "fns": [{"name": "f", "src": "def f(a: Tuple[Qint[2], Qint[2]]) -> bool:\n    return a[0] == a[1]\n"}], "sub": False},
    {"kind": "script", "fns": [{"name": "f", "src": "def f(a: Qlist[Qint[2], 2], b: bool) -> bool:\n    return (a[0] > a[1]) ^ b\n"}], "sub": False},
    {"kind": "script", "fns": [{"name": "g", "src": "def g(t: Tuple[Tuple[bool, bool], Tuple[bool, bool]]) -> bool:\n    return (t[0][0] and t[1][0]) or (t[0][1] and not t[1][1])\n"}], "sub": False},
    # optimised expression lists whose intermediates are defined through other intermediates (carry chains)
    {"kind": "script", "fns": [{"name": "f", "src": "def f(a: Qint[3], b: Qint[3]) -> bool:\n    return a + b > b\n"}], "sub": False},
    {"kind": "script", "fns": [{"name": "f", "src": "def f(a: Qint[3], b: Qint[3]) -> bool:\n    return a + b >= a\n"}], "sub": False},
    {"kind": "script", "fns": [{"name": "g", "src": "def g(a: Qint[3], b: Qint[3]) -> bool:\n    return a - b > b\n"}, {"name": "f", "src": "def f(a: Qint[3], b: Qint[3]) -> bool:\n    return (a + b) < (a ^ b)\n"}], "sub": False},
    # module-level names that differ from the def name, and a redefinition whose first version stays reachable
    {"kind": "script", "fns": [{"name": "f", "src": "def f(a: bool, b: bool) -> bool:\n    return a and not b\n", "alias": "g"}, {"name": "h", "src": "def h(a: bool, b: bool) -> bool:\n    return a ^ b\n"}], "sub": False},
    {"kind": "script", "fns": [{"name": "check", "src": "def check(a: Qint[2]) -> bool:\n    return a == 1\n", "alias": "baseline"}, {"name": "check", "src": "def check(a: Qint[2]) -> bool:\n    return a == 2\n"}], "sub": True},
    {"kind": "script", "fns": [{"name": "zz", "src": "def zz(a: bool, b: bool, c: bool) -> bool:\n    return (a or b) and not c\n", "alias": "aaa"}, {"name": "mm", "src": "def mm(a: bool, b: bool) -> bool:\n    return a or b\n", "alias": "zzz"}], "sub": False},
    {"kind": "script", "fns": [{"name": "f", "src": "def f(a: bool, b: bool) -> bool:\n    return a or b\n"}], "sub": True},
    {"kind": "script", "fns": [{"name": "f", "src": "def f(a: bool, b: bool, c: bool) -> bool:\n    return a or b or not c\n"}], "sub": False},
    {"kind": "script", "fns": [{"name": "f", "src": "def f(a: bool) -> bool:\n    return a\n"}], "sub": False},
    {"kind": "script", "fns": [{"name": "f", "src": "def f(a: bool) -> bool:\n    return not a\n"}], "sub": False},
    {"kind": "script", "fns": [{"name": "f", "src": "def f(a: Qint[2], b: Qint[2]) -> Qint[2]:\n    c = a + b\n    return c ^ a\n"}], "sub": False},
    {"kind": "script", "fns": [{"name": "zz", "src": "def zz(a: bool, b: bool) -> bool:\n    return a and b\n"}, {"name": "aa", "src": "def aa(a: bool, b: bool) -> bool:\n    return a ^ b\n"}], "sub": True},
    {"kind": "script", "fns": [{"name": "f", "src": "def f(a: Qint[2]) -> bool:\n    return a == 3\n"}, {"name": "g", "src": "def g(a: Qint[2]) -> bool:\n    return a > 1\n"}], "sub": False},
]


def run_main(modname, argv, stdin_text):
    """run tools main() in-process: -> (stdout, stderr, exception or None)"""
    import importlib

    mod = importlib.import_module(modname)
    out, err = io.StringIO(), io.StringIO()
    old_argv, old_stdin = sys.argv, sys.stdin
    sys.argv = [modname.split(".")[-1]] + argv
    sys.stdin = io.StringIO(stdin_text)
    exc = None
    try:
        with contextlib.redirect_stdout(out), contextlib.redirect_stderr(err):
            try:
                mod.main()
            except SystemExit as e:
                if e.code not in (0, None):
                    exc = e
            except Exception as e:
                exc = e
    finally:
        sys.argv, sys.stdin = old_argv, old_stdin
    return out.getvalue(), err.getvalue(), exc


def dimacs_matches(nv, clauses, target, n, sp):
    """is there an injective numbering var k -> argument bit making the clause set equal to `target` on all assignments"""
    if nv > n:
        return False
    for perm in itertools.permutations(range(n), nv):
        val = sp.ALL
        for cl in clauses:
            c = 0
            for lit in cl:
                v = sp.var(perm[abs(lit) - 1])
                c |= v if lit > 0 else (sp.ALL ^ v)
            val &= c
            if (val | target) != target and False:
                break
        if val == target:
            return True
    return False


def check(case):
    from ..monitors import reach

    r = _check_inner(case)
    if isinstance(r, dict):
        r.setdefault("counters", {}).update(reach.take())
    return r


def _check_inner(case):
    from qlasskit import qlassf
    from qlasskit.qcircuit.exporter_qasm import QasmExporter

    fns = case["fns"]
    # a function may also be bound to a second module-level name right after its definition ("alias"); a later definition
    # of the same name replaces the earlier one under that name
    script = HEADER + "\n".join("@qlassf\n" + f["src"] + (f"\n{f['alias']} = {f['name']}\n" if f.get("alias") else "") for f in fns)
    key = script
    cnt, fails = {}, []
    rng = random.Random(len(script))

    def fail(kind, msg, pred=None):
        if len(fails) < 6:
            fails.append({"kind": kind, "msg": f"{msg}; script:\n{script}", "pred": pred})

    # API side: every function compiled from its source string
    api = {}
    srcs = {}
    for f in fns:
        try:
            api[f["name"]] = qlassf(f["src"], to_compile=True)
            srcs[f["name"]] = f["src"]
            if f.get("alias"):
                api[f["alias"]] = api[f["name"]]
                srcs[f["alias"]] = f["src"]
                cnt["aliased_entry_points"] = 1
        except Exception as e:
            return {"status": "rejected", "key": key, "counters": {f"rejected:{type(e).__name__}": 1}}
    choices = list(api) if len(api) > 1 else [None, fns[0]["name"]]
    nontrivial = False
    scratch = os.environ.get("VQ_SCRATCH") or tempfile.gettempdir()
    for ep in choices:
        sel = api[ep] if ep else api[fns[0]["name"]]
        names = [b for a in sel.args for b in a.bitvec]
        n = len(names)
        if n > 7:
            continue
        sp = Space(n)
        try:
            env = boolvec.eval_list(sel.expressions, names, sp)
        except (boolvec.FreeSymbol, boolvec.Unsupported):
            continue
        target = sp.ALL
        for r in sel.returns.bitvec:
            target &= env[r]
        if target not in (0, sp.ALL):
            nontrivial = True
        base = (["-e", ep] if ep else [])
        if ep:
            cnt["entrypoint_selected"] = cnt.get("entrypoint_selected", 0) + 1
        for form in FORMS:
            for fmt in ("sympy", "dimacs"):
                argv = list(base) + (["-f", form] if form else []) + (["-t", fmt] if fmt != "sympy" or rng.random() < 0.3 else [])
                use_file_in = rng.random() < 0.4
                use_file_out = rng.random() < 0.3
                stdin_text = script
                outp = None
                if use_file_in:
                    ip = os.path.join(scratch, f"c17-in-{os.getpid()}.py")
                    with open(ip, "w") as fh:
                        fh.write(script)
                    argv += ["-i", ip]
                    stdin_text = ""
                if use_file_out:
                    outp = os.path.join(scratch, f"c17-out-{os.getpid()}.txt")
                    if os.path.exists(outp):
                        os.remove(outp)
                    argv += ["-o", outp]
                out, err, exc = run_main("qlasskit.tools.py2bexp", argv, stdin_text)
                cnt["py2bexp_runs"] = cnt.get("py2bexp_runs", 0) + 1
                tag = f"py2bexp {' '.join(argv)}"
                if exc is not None:
                    fail("py2bexp_exception", f"{tag}: {type(exc).__name__}: {exc}", pred=_pred_bexp(sel, form, target, sp))
                    continue
                if outp:
                    if not os.path.exists(outp):
                        fail("py2bexp_no_output_file", f"{tag}: no output file written")
                        continue
                    out = open(outp).read()
                text = out.strip()
                if text.startswith("Warning:"):
                    text = "\n".join(text.split("\n")[1:]).strip()
                if fmt == "sympy":
                    try:
                        e = bexpparse.parse(text)
                    except bexpparse.ParseError as pe:
                        fail("py2bexp_unparseable", f"{tag}: cannot parse {text[:200]!r}: {pe}")
                        continue
                    foreign = sorted(bexpparse.names(e) - set(names))
                    if foreign:
                        fail("py2bexp_foreign_symbol", f"{tag}: printed expression mentions {foreign}, not argument bits: {text[:300]}", pred="c17_conjoins_intermediates")
                        continue
                    v = bexpparse.ev(e, {nm: sp.var(i) for i, nm in enumerate(names)}, sp)
                    cnt["expressions_compared"] = cnt.get("expressions_compared", 0) + 1
                    if v != target:
                        k = sp.first(v ^ target)
                        fail("py2bexp_not_equivalent", f"{tag}: printed {text[:300]} differs from the conjunction of the return bits on assignment {k:0{n}b}", pred=_pred_bexp(sel, form, target, sp))
                else:
                    try:
                        nv, nc, clauses = bexpparse.parse_dimacs(text)
                    except Exception as pe:
                        fail("dimacs_unparseable", f"{tag}: {pe}: {text[:200]!r}", pred=_pred_bexp(sel, form, target, sp))
                        continue
                    if nc != len(clauses) or any(abs(l) < 1 or abs(l) > nv for c in clauses for l in c):
                        fail("dimacs_header", f"{tag}: header says {nv} vars {nc} clauses, body has {len(clauses)} clauses {clauses[:6]}")
                        continue
                    cnt["dimacs_compared"] = cnt.get("dimacs_compared", 0) + 1
                    if not dimacs_matches(nv, clauses, target, n, sp):
                        fail("dimacs_not_equisatisfiable", f"{tag}: no one-to-one numbering of the variables makes the clause set {clauses[:8]} ({nv} vars) equal to the function's conjunction", pred=_pred_bexp(sel, form, target, sp))
        # py2qasm
        for ver in ("3.0", "2.0"):
            argv = list(base) + ["-q", ver]
            out, err, exc = run_main("qlasskit.tools.py2qasm", argv, script)
            cnt["py2qasm_runs"] = cnt.get("py2qasm_runs", 0) + 1
            if exc is not None:
                fail("py2qasm_exception", f"py2qasm {argv}: {type(exc).__name__}: {exc}")
                continue
            ref = qlassf(srcs[ep] if ep else fns[0]["src"], to_compile=False)
            ref.compile(compiler="internal")
            exp = QasmExporter(version=3 if ver == "3.0" else 2).export(ref.circuit(), mode="circuit")
            if out.strip() != exp.strip():
                fail("py2qasm_differs", f"py2qasm {argv} printed\n{out[:400]}\nwhile the API export is\n{exp[:400]}")
    # unknown entry point
    out, err, exc = run_main("qlasskit.tools.py2bexp", ["-e", "no_such_function"], script)
    if out.strip() and "No qlassf" not in out:
        fail("entrypoint_unknown", f"-e no_such_function still printed {out[:100]!r}")
    # the real entry path as a subprocess
    if case.get("sub"):
        ep = fns[-1]["name"]
        sel = api[ep]
        names = [b for a in sel.args for b in a.bitvec]
        sp = Space(len(names))
        env = boolvec.eval_list(sel.expressions, names, sp)
        target = sp.ALL
        for r in sel.returns.bitvec:
            target &= env[r]
        r = subprocess.run([sys.executable, "-m", "qlasskit.tools.py2bexp", "-e", ep, "-f", "dnf"], input=script, capture_output=True, text=True, timeout=80, env=os.environ)
        cnt["subprocess_runs"] = cnt.get("subprocess_runs", 0) + 1
        if r.returncode != 0:
            fail("py2bexp_subprocess", f"exit {r.returncode}: {r.stderr[-300:]}")
        else:
            try:
                e = bexpparse.parse(r.stdout.strip())
                v = bexpparse.ev(e, {nm: sp.var(i) for i, nm in enumerate(names)}, sp)
                if v != target:
                    fail("py2bexp_subprocess_not_equivalent", f"subprocess printed {r.stdout.strip()[:200]}", pred=None)
            except (bexpparse.ParseError, KeyError) as pe:
                fail("py2bexp_subprocess_unparseable", f"{r.stdout[:200]!r}: {pe}", pred=None)
        r = subprocess.run([sys.executable, "-m", "qlasskit.tools.py2qasm", "-e", ep], input=script, capture_output=True, text=True, timeout=80, env=os.environ)
        cnt["subprocess_runs"] += 1
        if r.returncode != 0 or "OPENQASM 3.0" not in r.stdout:
            fail("py2qasm_subprocess", f"exit {r.returncode}: {r.stdout[:100]!r} {r.stderr[-300:]}")
    return {"status": "checked", "key": key, "nontrivial": nontrivial, "evals": cnt.get("py2bexp_runs", 0) + cnt.get("py2qasm_runs", 0), "fails": fails, "counters": cnt,
            "cov": [f"nfns:{len(fns)}"], "sample": script}


def _pred_bexp(sel, form, target, sp):
    """event-keyed attribution: is sympy's own to_anf non-equivalent on an expression equivalent to the function?"""
    if form != "anf":
        return None
    try:
        import sympy
        from sympy.logic.boolalg import to_anf

        from qlasskit.boolopt.bool_optimizer import merge_expressions

        names = [b for a in sel.args for b in a.bitvec]
        E = sympy.And(*[e for s, e in merge_expressions(sel.expressions)])
        env = {nm: sp.var(i) for i, nm in enumerate(names)}
        if boolvec.ev(E, env, sp, {}) != target:
            return None
        if boolvec.ev(to_anf(E), env, sp, {}) != target:
            return "c17_sympy_to_anf"
    except Exception:
        return None
    return None
