"""C05 — values survive the encode -> circuit -> decode round trip (section 5.5)."""
import random

from ..oracles import boolvec, codec, refsem, revsim
from ..oracles.space import Space, make_space
from . import compilecases as K
from . import compilecheck as CC
from . import progsem

ID = "C05"
LEVEL = "exploration"
RULE = (
    "case = one compiled program with a signature-directed shape (every argument/return type x nesting: bool, Qint widths, Qfixed, Qchar, tuples of "
    "tuples, lists, matrices, multi-argument) pushed through encode_input -> circuit simulation -> output_qubits reading -> decode_output/decode_counts for "
    "every argument value (<=10 input bits, boundary+random beyond); each leg compared with an independent codec model and the Python value; non-trivial "
    "= >=2 argument bits and a return value that depends on the input; distinct by source text"
)
DECIDING = ["encode_checked", "decode_checked", "qubit_lists_checked", "end_to_end_checked", "decode_counts_checked"]
ASSUMPTIONS = ["reading convention: character -1-k of a bit string is the value on qubit k (inputs) / on output_qubits[k] (outputs)",
               "end-to-end failures already visible in the C01/C02 monitors on the same program are blamed on those root causes (DESIGN 4.5)"]
CASE_TIMEOUT = {"quick": 40, "thorough": 120}

LEAVES = ["bool", "Qint2", "Qint3", "Qint4", "Qint5", "Qint6", "Qint8", "Qint12", "Qfixed1_2", "Qfixed2_2", "Qfixed1_3", "Qfixed2_3", "Qfixed1_4", "Qfixed2_4", "Qfixed3_3", "Qfixed3_4", "Qfixed4_4", "Qfixed1_6", "Qfixed2_6", "Qfixed3_6", "Qfixed4_6", "Qchar"]


def rtype(rng, budget, depth=0):
    r = rng.random()
    if depth >= 2 or r < 0.5 or budget < 4:
        cands = [t for t in LEAVES if codec.size(t) <= budget]
        return rng.choice(cands) if cands else "bool"
    k = rng.randint(2, 3)
    if rng.random() < 0.4:  # homogeneous list / matrix
        e = rtype(rng, max(1, budget // k), depth + 1)
        return [e] * k
    return [rtype(rng, max(1, budget // k), depth + 1) for _ in range(k)]


def leaves_of(name, t):
    if isinstance(t, list):
        out = []
        for k, x in enumerate(t):
            out += leaves_of(f"{name}[{k}]", x)
        return out
    return [(name, t)]


def sig_program(rng, max_bits=10):
    nargs = rng.randint(1, 3)
    args, budget = [], max_bits
    for i in range(nargs):
        t = rtype(rng, max(1, budget // (nargs - i)))
        args.append(["abcd"[i], t])
        budget -= codec.size(t)
        if budget < 1:
            break
    leaves = []
    for n, t in args:
        leaves += leaves_of(n, t)
    form = rng.random()
    body = []
    if form < 0.25:
        # return one argument as a whole (possibly a tuple-typed variable)
        n, t = rng.choice(args)
        ret, expr = t, n
    elif form < 0.45:
        n, t = rng.choice(args)
        body.append(f"    v = {n}")
        ret, expr = t, "v"
    else:
        k = rng.randint(1, 4)
        pick = [rng.choice(leaves) for _ in range(k)]
        elts, ts = [], []
        for e, t in pick:
            if t == "bool" and rng.random() < 0.4:
                e = f"(not {e})"
            elif t.startswith("Qint") and rng.random() < 0.4:
                e = rng.choice([f"({e} + 1)", f"(~{e})", f"({e} ^ {e})", f"({e} & 1)"])
                if e.endswith("& 1)") and False:
                    pass
            elts.append(e)
            ts.append(t)
        if k == 1:
            ret, expr = ts[0], elts[0]
        else:
            # nest the return sometimes
            if k >= 3 and rng.random() < 0.4:
                ret = [[ts[0], ts[1]]] + ts[2:]
                expr = f"(({elts[0]}, {elts[1]}), " + ", ".join(elts[2:]) + ")"
            else:
                ret, expr = ts, "(" + ", ".join(elts) + ")"
    style = rng.choice([0, 1, 2])
    sig = ", ".join(f"{n}: {codec.annotation(t, style)}" for n, t in args)
    src = f"def f({sig}) -> {codec.annotation(ret, style)}:\n" + "".join(b + "\n" for b in body) + f"    return {expr}\n"
    return {"src": src, "args": args, "ret": ret, "feat": ["sig"]}


def cases(tier, seed):
    rng = random.Random(5000 + seed)
    n = 260 if tier == "quick" else 3000
    for c in CORPUS:
        yield dict(c, kind="prog", profile="default", origin="corpus")
    for c in CORPUS_REBIND:
        for prof in ("default", "fast"):
            yield dict(c, kind="prog", profile=prof, origin="corpus")
    for i in range(n):
        yield dict(sig_program(rng, 10 if tier == "quick" else 13), kind="prog", profile="default" if i % 4 else "fast", origin="signature")
    from ..gen import programs as P

    pg = P.PG(rng, P.small_cfg(max_bits=8))
    for i in range(n // 3):
        yield dict(pg.program(), kind="prog", profile="fast" if i % 2 else "default", origin="core")


CORPUS = [
    {"src": "def f(a: Tuple[Qint[2], bool]) -> Tuple[Qint[2], bool]:\n    return a\n", "args": [["a", ["Qint2", "bool"]]], "ret": ["Qint2", "bool"]},
    {"src": "def f(a: Qint[4]) -> Qint[4]:\n    return a\n", "args": [["a", "Qint4"]], "ret": "Qint4"},
    {"src": "def f(a: Qint[2], b: Qint[4]) -> Tuple[Qint[4], Qint[2]]:\n    return (b, a)\n", "args": [["a", "Qint2"], ["b", "Qint4"]], "ret": ["Qint4", "Qint2"]},
    {"src": "def f(a: Qfixed[1, 2]) -> Qfixed[1, 2]:\n    return a\n", "args": [["a", "Qfixed1_2"]], "ret": "Qfixed1_2"},
    {"src": "def f(a: Qchar) -> Qchar:\n    return a\n", "args": [["a", "Qchar"]], "ret": "Qchar"},
    {"src": "def f(a: bool, b: bool) -> Tuple[bool, bool]:\n    return (a, a)\n", "args": [["a", "bool"], ["b", "bool"]], "ret": ["bool", "bool"]},
]


# arguments rebound in the body (their names then also name an intermediate of the expression list)
CORPUS_REBIND = [
    {"src": "def f(a: bool, b: bool) -> bool:\n    a = a and b\n    return a ^ b\n", "args": [["a", "bool"], ["b", "bool"]], "ret": "bool"},
    {"src": "def f(a: Qint[2], b: Qint[2]) -> Qint[2]:\n    a = a + b\n    return a ^ b\n", "args": [["a", "Qint2"], ["b", "Qint2"]], "ret": "Qint2"},
    {"src": "def f(t: Tuple[bool, bool], c: bool) -> Tuple[bool, bool]:\n    t = (t[1] and c, t[0])\n    return t\n", "args": [["t", ["bool", "bool"]], ["c", "bool"]], "ret": ["bool", "bool"]},
    {"src": "def f(s: Qint[2], l: Qlist[Qint[2], 2]) -> Qint[2]:\n    for x in l:\n        s = s + x\n    return s\n", "args": [["s", "Qint2"], ["l", ["Qint2", "Qint2"]]], "ret": "Qint2"},
    {"src": "def f(a: bool, b: bool, c: bool) -> Tuple[bool, bool]:\n    b = not b\n    a = a or b\n    return (a, b and c)\n", "args": [["a", "bool"], ["b", "bool"], ["c", "bool"]], "ret": ["bool", "bool"]},
]


def real_value(t, v):
    """python value (codec.decode output) -> the library's value object for encode_input"""
    from qlasskit import types as T

    if isinstance(t, list):
        return tuple(real_value(x, y) for x, y in zip(t, v))
    if t == "bool":
        return bool(v)
    if t == "Qchar":
        return T.Qchar(v)
    cls = getattr(T, t)
    if t.startswith("Qfixed"):
        return cls(float(v))
    return cls(v)


def same_value(t, got, exp):
    """got: library value; exp: codec value"""
    if isinstance(t, list):
        return isinstance(got, tuple) and len(got) == len(t) and all(same_value(x, g, e) for x, g, e in zip(t, got, exp))
    if t == "bool":
        return isinstance(got, bool) and got == exp
    if type(got).__name__ != t:
        return False
    if t == "Qchar":
        return str(got) == exp
    if t.startswith("Qfixed"):
        return abs(float(got) - float(exp)) < 1e-12
    return int(got) == exp


def check(case):
    args, ret, src = case["args"], case["ret"], case["src"]
    key = src + case["profile"]
    try:
        qc, names, rets, exprs, qf = K.compile_case(case, True)
    except Exception as e:
        return {"status": "rejected", "key": key, "counters": {f"rejected:{type(e).__name__}": 1}, "cov": [f"origin:{case['origin']}"], "error": str(e)[:200]}
    n = progsem.arg_bits(args)
    fails, cnt = [], {}
    cov = [f"origin:{case['origin']}"] + sorted({f"argtype:{codec.annotation(t, 1)[:14]}" for _, t in args}) + [f"rettype:{codec.annotation(ret, 1)[:14]}"]

    def fail(kind, msg, pred=None):
        if len(fails) < 5:
            fails.append({"kind": kind, "msg": msg + f"; program:\n{src}", "pred": pred})

    if len(names) != n or len(rets) != codec.size(ret):
        fail("signature", f"library sees {len(names)} argument bits / {len(rets)} return bits, annotations say {n} / {codec.size(ret)}")
        return {"status": "checked", "key": key, "nontrivial": False, "evals": 0, "fails": fails, "counters": cnt, "cov": cov}
    nq = qc.num_qubits
    classical = all(revsim.is_classical(g) for g, w, p in qc.gates)
    # (ii) qubit lists
    cnt["qubit_lists_checked"] = 1
    try:
        iq = list(qf.input_qubits)
        if iq != list(range(n)):
            fail("input_qubits", f"input_qubits = {iq}, expected 0..{n - 1}")
    except Exception as e:
        fail("input_qubits_exception", f"{type(e).__name__}: {e}")
    try:
        oq = list(qf.output_qubits)
    except Exception as e:
        fail("output_qubits_exception", f"output_qubits raised {type(e).__name__}: {e}", pred="c05_return_tuple_variable" if _returns_name(src) and isinstance(ret, list) else None)
        return {"status": "checked", "key": key, "nontrivial": True, "evals": 0, "fails": fails, "counters": cnt, "cov": cov, "sample": src}
    if oq != [qc.qubit_map.get(b) for b in rets] or any((q is None or q < 0 or q >= nq) for q in oq) or len(oq) != codec.size(ret):
        fail("output_qubits", f"output_qubits = {oq} for return bits {rets} with map {[qc.qubit_map.get(b) for b in rets]} on {nq} qubits")
    exhaustive = n <= 10
    sp = make_space(n, limit=10, rng=random.Random(len(src)), samples=600)
    try:
        env = boolvec.eval_list(exprs, names, sp)
    except (boolvec.FreeSymbol, boolvec.Unsupported):
        return {"status": "skipped", "key": key}
    # two output bits share a qubit only if they always carry the same value
    for i in range(len(oq)):
        for j in range(i + 1, len(oq)):
            if oq[i] == oq[j] and env[rets[i]] != env[rets[j]]:
                fail("shared_output_qubit", f"return bits {rets[i]} and {rets[j]} share qubit {oq[i]} but differ on some input")
    # reference values
    try:
        rt = progsem.ref_table(src, args, ret, sp, keep_values=False)
    except (refsem.Unsupported, SyntaxError):
        rt = None
        cnt["ref_unsupported"] = 1
    st = None
    if classical:
        st = revsim.run(qc.gates, revsim.initial_state(nq, n, sp), sp)
    shadow_blame = None
    counts_in = {}
    counts_exp = {}
    dependent = False
    for k, row in enumerate(sp.iter_rows()):
        vals = progsem.decode_row(args, row)
        # (i) encode_input
        try:
            lib_vals = [real_value(t, v) for (_, t), v in zip(args, vals)]
            s = qf.encode_input(*lib_vals)
            cnt["encode_checked"] = cnt.get("encode_checked", 0) + 1
            exp_s = "".join(str((row >> i) & 1) for i in range(n))[::-1]
            if s != exp_s:
                fail("encode_input", f"encode_input({lib_vals}) = {s!r}, the argument encodings spell {exp_s!r} (character -1-i = qubit i)")
        except Exception as e:
            fail("encode_input_exception", f"encode_input for {vals}: {type(e).__name__}: {e}")
        if st is None:
            continue
        # reading of the output qubits
        bits = [(st[q] >> k) & 1 for q in oq]
        reading = "".join(str(b) for b in bits)[::-1]
        exp_val = codec.decode(ret, bits)
        forms = [("str", reading), ("list", [c == "1" for c in reading]), ("int", int(reading, 2))]
        for fname, form in forms:
            try:
                keep_form = list(form) if isinstance(form, list) else form
                got = qf.decode_output(form)
                cnt["decode_checked"] = cnt.get("decode_checked", 0) + 1
                if form != keep_form:
                    fail("decode_output_changed_its_argument", f"decode_output({keep_form!r}) left the caller's reading as {form!r}")
                elif isinstance(form, list) and not same_value(ret, qf.decode_output(form), exp_val):
                    fail("decode_output_second_call", f"a second decode_output of the same list reading {keep_form!r} gives another value")
                if not same_value(ret, got, exp_val):
                    fail(f"decode_output_{fname}", f"decode_output({form!r}) = {got!r}, the reading spells {exp_val!r} in type {codec.annotation(ret)}",
                         pred="c05_decode_output_int_padding" if fname == "int" and reading.startswith("0") else None)
            except Exception as e:
                fail(f"decode_output_{fname}_exception", f"decode_output({form!r}): {type(e).__name__}: {e}")
        counts_in[reading] = counts_in.get(reading, 0) + 1 + (k % 3)
        # (iv) end to end against the Python value
        if rt is not None:
            cnt["end_to_end_checked"] = cnt.get("end_to_end_checked", 0) + 1
            for j in range(len(oq)):
                if (rt.req[j] >> k) & 1:
                    expb = (rt.exp[j] >> k) & 1
                    if bits[j] != expb:
                        libb = (env[rets[j]] >> k) & 1
                        if libb != expb:
                            fail("end_to_end_frontend", f"return bit {j} for {progsem.describe_row(args, row)}: Python gives {expb}, the expressions give {libb} (front-end root cause, see C01)")
                        else:
                            if shadow_blame is None:
                                shadow_blame = _c02_blame(case)
                            fail("end_to_end_circuit", f"return bit {j} for {progsem.describe_row(args, row)}: Python and the expressions give {expb}, the circuit leaves {bits[j]} (synthesis root cause, see C02)", pred=shadow_blame)
                        break
        if k > 0 and bits != [(st[q] >> 0) & 1 for q in oq]:
            dependent = True
    # decode_counts = multiset image
    if st is not None and counts_in:
        try:
            got = qf.decode_counts(dict(counts_in))
            cnt["decode_counts_checked"] = 1
            expc = {}
            for r, c in counts_in.items():
                v = qf.decode_output(r)
                expc[v] = expc.get(v, 0) + c
            if got != expc or sum(got.values()) != sum(counts_in.values()):
                fail("decode_counts", f"decode_counts({counts_in}) = {got}, the image is {expc}")
            else:
                # discard_lower applies to the decoded totals (several strings may decode to one value)
                top_raw, top = max(counts_in.values()), max(expc.values())
                for thr in sorted({top, (top_raw + top) // 2 + 1, top_raw + 1, 2}):
                    if thr <= top:
                        got_t = qf.decode_counts(dict(counts_in), discard_lower=thr)
                        if got_t != {k: v for k, v in expc.items() if v >= thr}:
                            fail("decode_counts_discard", f"decode_counts({counts_in}, discard_lower={thr}) = {got_t}; decoded totals are {expc}")
        except Exception as e:
            fail("decode_counts_exception", f"{type(e).__name__}: {e}")
    return {"status": "checked", "key": key, "nontrivial": bool(n >= 2 and dependent), "evals": sp.N, "fails": fails, "counters": cnt, "cov": cov, "sample": src}


def _returns_name(src):
    last = src.strip().split("\n")[-1].strip()
    return last.startswith("return ") and last[7:].isidentifier()


def _c02_blame(case):
    # only a circuit that the C02 monitor itself finds wrong can be blamed on a C02 root cause
    try:
        qc1, n1, r1, e1, _ = K.compile_case(case, True)
        o1 = CC.observe(qc1, n1, r1, e1)
        if not o1.wrong_out:
            return None
    except Exception:
        return None
    return CC.blame_wrong_output(case, True, K.compile_case, {})
