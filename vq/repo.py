"""Bind the worker process to the working tree of the repository under test."""
import os
import sys

REPO = os.environ.get("VQ_REPO", "/repo")
VERIF = os.path.dirname(os.path.dirname(os.path.abspath(__file__)))


def bind():
    """Put REPO first on sys.path and make sure qlasskit is imported from it."""
    sys.dont_write_bytecode = True
    os.environ.setdefault("QLASSKIT_VERIF", "1")
    if REPO in sys.path:
        sys.path.remove(REPO)
    sys.path.insert(0, REPO)
    import qlasskit  # noqa

    f = os.path.realpath(qlasskit.__file__)
    if not f.startswith(os.path.realpath(REPO) + os.sep):
        raise RuntimeError(f"qlasskit imported from {f}, not from {REPO}")
    return qlasskit
