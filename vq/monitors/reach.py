"""Reach counters on the anchored mechanisms: how often each named function of the repository actually started
executing during a case (sys.monitoring local PY_START events on those code objects only; negligible overhead)."""
import sys

COUNTS = {}
_installed = set()
TOOL = 3  # sys.monitoring tool id (0-5 are free for applications; 0=debugger,1=coverage,2=profiler by convention)
_ready = False


def _code_of(obj):
    f = getattr(obj, "__func__", obj)
    f = getattr(f, "__wrapped__", f)
    return getattr(f, "__code__", None)


def install(named):
    """named: dict label -> function / method / classmethod / staticmethod object"""
    global _ready
    mon = getattr(sys, "monitoring", None)
    if mon is None:
        return
    if not _ready:
        try:
            mon.use_tool_id(TOOL, "vq-reach")
        except ValueError:
            pass
        labels = {}

        def on_start(code, offset):
            lb = labels.get(code)
            if lb is not None:
                COUNTS[lb] = COUNTS.get(lb, 0) + 1

        mon.register_callback(TOOL, mon.events.PY_START, on_start)
        install._labels = labels
        _ready = True
    for label, obj in named.items():
        code = _code_of(obj)
        if code is None or label in _installed:
            continue
        install._labels[code] = label
        mon.set_local_events(TOOL, code, mon.events.PY_START)
        _installed.add(label)


def take():
    """counts since the last take(), as 'reach:<label>' counters"""
    out = {f"reach:{k}": v for k, v in COUNTS.items() if v}
    COUNTS.clear()
    return out


def install_paths(paths):
    """paths: ['pkg.mod:Class.attr' | 'pkg.mod:function', ...]"""
    import importlib

    named = {}
    for p in paths:
        mod, attr = p.split(":")
        o = importlib.import_module(mod)
        parts = attr.split(".")
        for i, a in enumerate(parts):
            o = o.__dict__[a] if (i == len(parts) - 1 and isinstance(o, type)) else getattr(o, a)
        named[attr] = o
    install(named)
