"""Shadow monitor of the internal compiler: a bit-parallel simulation of the circuit *while it is being built*,
with the helper contract of compile_expr checked on every call (record-and-continue).

contract: compile_expr(e, dest=None) returns a qubit holding e;  compile_expr(e, dest=d) returns d with e xor-ed into it.
Events never decide a property (DESIGN 5.2): they attribute an observed failure to the first helper that broke."""
from ..oracles import boolvec, revsim
from ..oracles.space import Space

STATE = {"on": False, "events": [], "calls": 0, "sp": None, "st": None, "ptr": 0, "depth": 0, "frames": [], "clobbers": [], "inplace_nots": 0}
_installed = False


def _sync(qc):
    st, sp = STATE["st"], STATE["sp"]
    while len(st) < qc.num_qubits:
        st.append(0)
    gs = qc.gates
    ALL = sp.ALL
    for i in range(STATE["ptr"], len(gs)):
        g, w, p = gs[i]
        k = revsim.gate_kind(g)
        if k == "nop":
            continue
        if k != "x":
            STATE["on"] = False
            return
        c = ALL
        for q in w[:-1]:
            c &= st[q]
        st[w[-1]] ^= c
    STATE["ptr"] = len(gs)


def install():
    global _installed
    if _installed:
        return
    _installed = True
    from qlasskit.compiler.internalcompiler import InternalCompiler as IC

    ocompile = IC.compile
    oexpr = IC.compile_expr

    def compile(self, name, args, returns, exprs, uncompute=True):
        n = sum(len(a.bitvec) for a in args)
        STATE.update(on=STATE.get("armed", False) and n <= 12, events=[], calls=0, ptr=0, depth=0, frames=[], clobbers=[], inplace_nots=0)
        if STATE["on"]:
            sp = Space(n)
            STATE["sp"] = sp
            STATE["st"] = [sp.var(i) for i in range(n)]
        try:
            return ocompile(self, name, args, returns, exprs, uncompute)
        finally:
            STATE["on_after"] = STATE["on"]
            STATE["on"] = False

    def compile_expr(self, qc, expr, dest=None, sym=None):
        if not STATE["on"]:
            return oexpr(self, qc, expr, dest, sym)
        _sync(qc)
        if not STATE["on"]:
            return oexpr(self, qc, expr, dest, sym)
        st, sp = STATE["st"], STATE["sp"]
        try:
            env = {nm: st[q] for nm, q in qc.qubit_map.items() if q < len(st)}
            val = boolvec.ev(expr, env, sp, {})
        except Exception:
            val = None
        pre_dest = st[dest] if dest is not None and dest < len(st) else (0 if dest is not None else None)
        STATE["depth"] += 1
        d = STATE["depth"]
        try:
            r = oexpr(self, qc, expr, dest, sym)
        finally:
            STATE["depth"] -= 1
        STATE["calls"] += 1
        if STATE["frames"] and STATE["frames"][-1]["depth"] == d - 1:
            STATE["frames"][-1]["children"].append(r)
        if val is None or not STATE["on"]:
            return r
        _sync(qc)
        st = STATE["st"]
        selfnot = sym is not None and type(expr).__name__ == "Not" and getattr(expr.args[0], "name", None) == sym.name
        if selfnot:
            return r
        if dest is not None:
            ok = r == dest and st[r] == (pre_dest ^ val)
        else:
            ok = r < len(st) and st[r] == val
        if not ok and len(STATE["events"]) < 20:
            STATE["events"].append({"helper": "compile_" + type(expr).__name__.lower(), "depth": d, "dest_given": dest is not None, "returned": r, "dest": dest,
                                    "expr": str(expr)[:160], "gate_index": len(qc.gates)})
        return r

    def _framed(orig):
        def helper(self, qc, expr, dest=None):
            STATE["frames"].append({"depth": STATE["depth"], "children": [], "expr": str(expr)[:80]})
            try:
                return orig(self, qc, expr, dest)
            finally:
                STATE["frames"].pop()

        return helper

    onot = IC.compile_not

    def compile_not(self, qc, expr, dest=None, sym=None):
        n0 = len(qc.gates)
        r = onot(self, qc, expr, dest, sym)
        try:
            if len(qc.gates) > n0:
                g, w, p = qc.gates[-1]
                selfnot = sym is not None and getattr(expr.args[0], "name", None) == sym.name
                if type(g).__name__ == "X" and list(w) == [r] and r in qc.ancilla_lst and not selfnot and dest != r:
                    STATE["inplace_nots"] = STATE.get("inplace_nots", 0) + 1
                    # an operand list of an enclosing And/Or that is still being collected refers to this qubit
                    for f in STATE["frames"]:
                        if r in f["children"]:
                            STATE["clobbers"].append({"qubit": r, "pending_in": f["expr"], "negated": str(expr)[:80], "gate_index": len(qc.gates)})
                            break
        except Exception:
            pass
        return r

    IC.compile = compile
    IC.compile_expr = compile_expr
    IC.compile_and = _framed(IC.compile_and)
    IC.compile_or = _framed(IC.compile_or)
    IC.compile_not = compile_not


def arm(on=True):
    STATE["armed"] = on
