"""Stand-in for the pyqubo modelling library (not installed, cannot be fetched): implements the documented polynomial
semantics of its logic gates and constraints over {0,1} and RECORDS everything it is handed.  Only on sys.path of C18 workers."""
RECORD = {"binaries": [], "compiled": [], "calls": []}


def reset():
    RECORD["binaries"] = []
    RECORD["compiled"] = []
    RECORD["calls"] = []


class Express:
    def __init__(self, kind, args, label=None):
        self.kind = kind
        self.args = args
        self.label = label

    # arithmetic
    def __add__(self, o):
        return Express("add", [self, _wrap(o)])

    def __radd__(self, o):
        return Express("add", [_wrap(o), self])

    def __mul__(self, o):
        return Express("mul", [self, _wrap(o)])

    __rmul__ = __mul__

    def __sub__(self, o):
        return Express("add", [self, Express("mul", [Express("num", [-1]), _wrap(o)])])

    def __rsub__(self, o):
        return Express("add", [_wrap(o), Express("mul", [Express("num", [-1]), self])])

    def __neg__(self):
        return Express("mul", [Express("num", [-1]), self])

    def compile(self, strength=5.0):
        m = Model(self)
        RECORD["compiled"].append(self)
        return m

    def variables(self, acc=None):
        acc = set() if acc is None else acc
        if self.kind == "bin":
            acc.add(self.args[0])
        else:
            for a in self.args:
                if isinstance(a, Express):
                    a.variables(acc)
        return acc

    def value(self, asg):
        """exact value on a {0,1} assignment (dict label -> 0/1); constraints contribute their penalty polynomial"""
        k = self.kind
        if k == "bin":
            return asg[self.args[0]]
        if k == "num":
            return self.args[0]
        if k == "add":
            return self.args[0].value(asg) + self.args[1].value(asg)
        if k == "mul":
            return self.args[0].value(asg) * self.args[1].value(asg)
        if k == "not":
            return 1 - self.args[0].value(asg)
        if k == "and":
            return self.args[0].value(asg) * self.args[1].value(asg)
        if k == "or":
            a, b = self.args[0].value(asg), self.args[1].value(asg)
            return a + b - a * b
        if k == "xor":
            a, b = self.args[0].value(asg), self.args[1].value(asg)
            return a + b - 2 * a * b
        if k == "notconst":
            a, b = self.args[0].value(asg), self.args[1].value(asg)
            return 2 * a * b - a - b + 1
        if k == "andconst":
            a, b, c = (x.value(asg) for x in self.args)
            return a * b - 2 * (a + b) * c + 3 * c
        if k == "orconst":
            a, b, c = (x.value(asg) for x in self.args)
            return a * b + (a + b) * (1 - 2 * c) + c
        if k == "xorconst":
            a, b, c = (x.value(asg) for x in self.args)
            # documented gadget uses an auxiliary binary; its minimum over that auxiliary is 0 iff c == a xor b, >= 1 otherwise
            return 0 if c == (a + b) % 2 else 1
        raise ValueError(k)


def _wrap(o):
    if isinstance(o, Express):
        return o
    if isinstance(o, bool):
        return Express("num", [1 if o else 0])
    if isinstance(o, (int, float)):
        return Express("num", [o])
    raise TypeError(f"pyqubo stand-in: cannot use {type(o).__name__} in an expression")


def Binary(label):
    RECORD["binaries"].append(label)
    return Express("bin", [label])


def _gate(kind, n):
    def g(*args):
        if len(args) != n:
            raise TypeError(f"{kind}() takes {n} positional arguments but {len(args)} were given")
        RECORD["calls"].append((kind, n))
        return Express(kind, [_wrap(a) for a in args])

    return g


Not = _gate("not", 1)
And = _gate("and", 2)
Or = _gate("or", 2)
Xor = _gate("xor", 2)


def _const(kind, n):
    def g(*args):
        if len(args) != n + 1:
            raise TypeError(f"{kind}() takes {n + 1} positional arguments but {len(args)} were given")
        label = args[-1]
        RECORD["calls"].append((kind, n))
        return Express(kind, [_wrap(a) for a in args[:-1]], label=label)

    return g


NotConst = _const("notconst", 2)
AndConst = _const("andconst", 3)
OrConst = _const("orconst", 3)
XorConst = _const("xorconst", 3)


class DecodedSample:
    def __init__(self, sample, energy):
        self.sample = sample
        self.energy = energy


class Model:
    def __init__(self, expr):
        self.expr = expr
        self.method_calls = []

    def to_bqm(self, *a, **k):
        self.method_calls.append("to_bqm")
        return ("bqm", self)

    def to_ising(self, *a, **k):
        self.method_calls.append("to_ising")
        return ("ising", self)

    def to_qubo(self, *a, **k):
        self.method_calls.append("to_qubo")
        return ("qubo", self)

    def decode_sampleset(self, sampleset, *a, **k):
        self.method_calls.append("decode_sampleset")
        out = []
        for s in sampleset:
            full = dict(s)
            for v in self.expr.variables():
                full.setdefault(v, 0)
            out.append(DecodedSample(dict(s), self.expr.value(full)))
        return out
