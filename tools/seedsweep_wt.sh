#!/bin/bash
# Like seedsweep.sh, but each seeded change is applied in its own scratch worktree of /repo (under /tmp, removed afterwards)
# and the checks run with VQ_REPO=<worktree>, so several seeds can be processed in parallel and /repo is never touched.
# usage: tools/seedsweep_wt.sh [parallelism] [seed-name-pattern]
cd /verif
P=${1:-3}; PAT=${2:-.}
one() {
  n=$1
  d=/verif/seeded/$n
  wt=/tmp/ss-$n
  git -C /repo worktree add --detach $wt HEAD -q 2>/dev/null || { echo "SEED $n: worktree failed"; return; }
  if ! git -C $wt apply $d/patch.diff 2>/dev/null; then echo "SEED $n: patch does not apply"; git -C /repo worktree remove --force $wt; return; fi
  ids=$(/venv/bin/python -c "import json;print(' '.join(json.load(open('$d/meta.json'))['caught_by'].keys()))" 2>/dev/null | grep -v conda)
  for p in $ids; do
    out=$(VQ_REPO=$wt VQ_TIMEOUT_SCALE=3 /venv/bin/python -m vq.run check $p --tier quick 2>&1 | grep -v conda)
    nv=$(echo "$out" | grep -c "^VIOLATION")
    inc=$(echo "$out" | grep -c "^INCONCLUSIVE")
    echo "SEED $n check=$p violations=$nv $( [ $nv -gt 0 ] && echo CAUGHT || ( [ $inc -gt 0 ] && echo INCONCLUSIVE || echo MISSED ) )"
  done
  git -C /repo worktree remove --force $wt
}
export -f one
ls seeded | grep -E "$PAT" | xargs -P $P -I{} bash -c 'one {}'
git -C /repo worktree prune
