#!/usr/bin/env python3
"""Regenerate /verif/known_inputs.json: for the fixed corpus of C02/C03/C06, which cases fail by a listed mechanism
under which hash seed.  Run ONLY on the tree whose findings are being recorded (never by a check)."""
import json
import os
import subprocess
import sys

V = "/verif"
out = {}
for pid in ("C02", "C03", "C06"):
    acc = {}
    for seed in (0, 1, 2, 3):
        env = dict(os.environ, VQ_DUMP="1", VERIF_SEED=str(seed), VQ_IGNORE_KNOWN_INPUTS="1", VQ_TIMEOUT_SCALE="8")
        r = subprocess.run(["/venv/bin/python", "-m", "vq.run", "check", pid, "--tier", "quick"], cwd=V, env=env, capture_output=True, text=True)
        last = [l for l in r.stdout.split("\n") if l.strip()][-1]
        print(last[:200])
        if "timeout" in last:
            print("WARNING: timeouts in this run; fixed-corpus entries may be incomplete", file=sys.stderr)
        for line in open(f"{V}/replays/{pid}-violations.jsonl"):
            row = json.loads(line)
            if "known" in row and isinstance(row["case"], dict) and row["case"].get("origin") == "fixed":
                acc.setdefault(row["known"], set()).add(row["wid"])
    out[pid] = {k: sorted(v) for k, v in acc.items()}
    print(pid, {k: len(v) for k, v in out[pid].items()})
json.dump(out, open(f"{V}/known_inputs.json", "w"), indent=0)
