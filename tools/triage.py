import json, sys, collections
pid = sys.argv[1]
n = int(sys.argv[2]) if len(sys.argv) > 2 else 40
rows = [json.loads(l) for l in open(f'/verif/replays/{pid}-violations.jsonl')]
c = collections.Counter(r['fail']['kind'] for r in rows if 'known' not in r)
print(c)
for r in rows[:n]:
    if 'known' in r: continue
    cs = r['case']
    print('-----', r['fail']['kind'], cs.get('stream'), cs.get('origin'))
    print(cs.get('src') or json.dumps({k: v for k, v in cs.items() if k not in ('feat',)})[:600])
    print('  ', str(r['fail']['msg'])[:400])
