#!/bin/bash
# run the baseline suite of a tree (default /repo), compare with BASELINE.json stable_pass; exit 1 if a stable test no longer passes
D=${1:-/repo}
X=/tmp/bl-$$.xml
cd $D && PYTHONPATH=$D /venv/bin/python -m pytest -q -p no:cacheprovider --timeout=900 --continue-on-collection-errors -n 12 --junitxml=$X >/tmp/bl-$$.log 2>&1
/venv/bin/python - $X <<'PY'
import json,sys,xml.etree.ElementTree as ET
b=json.load(open('/root/.vp/BASELINE.json'))
t=ET.parse(sys.argv[1]).getroot()
ok=set()
for tc in t.iter('testcase'):
    if not any(c.tag in('failure','error','skipped') for c in tc):
        ok.add(tc.get('classname')+'::'+tc.get('name'))
miss=[x for x in b['stable_pass'] if x not in ok]
print('stable_pass',len(b['stable_pass']),'passing now',len(ok),'missing',len(miss))
for m in miss[:20]: print('  MISSING',m)
sys.exit(1 if miss else 0)
PY
rc=$?
rm -f $X /tmp/bl-$$.log
exit $rc
