#!/usr/bin/env python3
"""Regenerate /verif/MANIFEST.json from the table below."""
import json
import os

V = "/verif"
PY = "/venv/bin/python"
CHECKS = {
    "C01": ("5.1", "reference-semantics monitor: original source run by CPython on width-tracked values vs. bit-parallel evaluation of QlassF.expressions and truth_table() on every input",
            "Exploration over generated programs (typed grammar, both optimizer profiles), exhaustive over inputs per program (<=12 bits). Says nothing about programs the generator does not emit.",
            "Trusted: CPython, the harness's tracked-value classes and typing discipline D, the bit-parallel boolean evaluator."),
    "C02": ("5.2", "post-condition monitor on the real compiler: bit-parallel reversible simulation of every qubit on all inputs vs. the expression list handed to the compiler; counterfactual attribution",
            "Exploration over generated programs and definition lists x {default, fast} x {uncompute on, off}, exhaustive over inputs per circuit.",
            "Trusted: own reversible simulator and boolean evaluator; expected values are taken from the post-optimizer expression list."),
    "C03": ("5.3", "post-condition monitor on every qubit after uncompute_all + replay-divergence forensics over hooked scratch-qubit life-cycle events",
            "Exploration over generated programs and lists, exhaustive over inputs; dirty cases are attributed to listed mechanisms only when the first deviation from the ideal replay matches and the scratch invariants held before the replay.",
            "Trusted: own reversible simulator; recording wrappers on uncompute/uncompute_all/get_free_ancilla."),
    "C04": ("5.4", "post-condition monitor on every optimizer step and on the list between any two steps of both profiles, bit-parallel equivalence on all assignments",
            "Exploration over random, pattern-directed, enumerated and front-end-captured lists; exhaustive over assignments per list.",
            "Trusted: own boolean evaluator (no use of sympy subs/simplify); sympy constructors for building inputs."),
    "C06": ("5.6", "post-condition monitor: reversible simulation on every (x, y) basis state, double application, forensics for blame",
            "Exploration over bool-returning programs/lists, exhaustive over inputs and both initial output values.",
            "Trusted: own reversible simulator; blame on C02/C03 root causes follows DESIGN 4.5."),
    "C09": ("5.9", "exhaustive codec monitor against an independent model of the documented encodings",
            "Exhaustive over all bit patterns of every shipped Qint/Qfixed/Qchar type; nested types exhaustive <=12 bits, boundary+random beyond.",
            "Trusted: the harness's model of the documented encodings."),
}
CHECKS.update({
    "C11": ("5.11", "post-condition monitor on Decompiler.decompile: independent scan for maximal classical runs + reversible simulation over symbolic entry values vs. the reported expressions",
            "Exploration over random/structured/compiled circuits (thorough: exhaustive <=3-gate circuits on 3 qubits); exhaustive over entry states per section.",
            "Trusted: own reversible simulator and boolean evaluator."),
    "C12": ("5.12", "post-condition monitor on circuit_boolean_optimizer: exact unitary / basis-action comparison, gate count, input immutability; recording wrapper counts re-synthesised sections",
            "Exploration over random, structured and compiled circuits.", "Trusted: own numpy unitary simulator (cross-checked against qiskit in the self-test)."),
    "C13": ("5.13", "export monitor: unitaries of exported Qiskit/Cirq/Sympy objects vs. own state-vector simulation with qubit i = qubit i; parser for the QASM dialect (formal parameters, body, invocation)",
            "Exploration over circuits x exporters x {circuit, gate}.", "Trusted: qiskit Operator, cirq.unitary, sympy represent as simulators of the exported objects; QASM angles compared within the two printed decimals."),
    "C14": ("5.14", "history monitor over composition operators: exact unitary of result vs. product of the parts, operand fingerprints re-read after mutating the result; remove_identities and qft/iqft post-conditions",
            "Exploration over circuit pairs, remappings, n in 1..5, all qubit lists up to length 5 (sampled in quick).", "Trusted: own numpy unitary simulator."),
})
NOT_YET = {}


def main():
    props = [json.loads(l) for l in open(os.path.join(V, "properties.jsonl"))]
    checks = []
    for pid, (sec, tech, text, note) in sorted(CHECKS.items()):
        checks.append({
            "property_id": pid,
            "quick_cmd": f"{PY} -m vq.run check {pid} --tier quick",
            "thorough_cmd": f"{PY} -m vq.run check {pid} --tier thorough",
            "evidence_file": f"/verif/evidence/{pid}.json",
            "replay_cmd_template": f"{PY} -m vq.run replay {{path}}",
            "engine": "vq",
            "level_claimed": {"category": "exploration", "text": text, "design_ref": f"DESIGN.md section {sec}"},
            "level_note": note,
            "technique": "runtime monitoring: " + tech,
        })
    na = [{"property_id": p["id"], "reason": NOT_YET.get(p["id"], "check not built yet (work in progress); will be decided by runtime monitoring as described in DESIGN.md")}
          for p in props if p["id"] not in CHECKS]
    m = {
        "version": 1,
        "setup_cmd": f"cd /verif && {PY} -m vq.run selftest",
        "hooks": {
            "guard": "QLASSKIT_VERIF",
            "enable": "no source hooks in the repository: monitors are attached from outside by wrapping real functions/methods inside each worker process (QLASSKIT_VERIF=1 is exported to workers)",
            "baseline_off_cmd": "cd /repo && /venv/bin/python -m pytest -q -p no:cacheprovider --timeout=900 --continue-on-collection-errors -n 8",
            "source_commits": [],
            "add_only": True,
        },
        "engines": [{"name": "vq", "path": "/verif/vq", "serves_properties": sorted(CHECKS), "kind_free_text": "Python runtime-monitoring harness: seeded workload generators, recording wrappers on the real qlasskit functions, independent oracles (bit-parallel boolean evaluator, reversible and state-vector simulators, CPython reference semantics), sharded over 16 worker processes"}],
        "checks": checks,
        "notes": "Checks exit 0 (held on everything explored; KNOWN-FINDING lines for listed findings), 1 (VIOLATION lines) or 2 (INCONCLUSIVE: a deciding monitor observed nothing). Known findings: /verif/known_findings.json.",
        "not_applicable": na,
    }
    json.dump(m, open(os.path.join(V, "MANIFEST.json"), "w"), indent=1)


if __name__ == "__main__":
    main()
