#!/usr/bin/env python3
"""Regenerate /verif/MANIFEST.json from the table below."""
import json
import os

V = "/verif"
PY = "/venv/bin/python"
CHECKS = {
    "C01": ("5.1", "reference-semantics monitor: original source run by CPython on width-tracked values vs. bit-parallel evaluation of QlassF.expressions and truth_table() on every input",
            "Exploration over generated programs (typed grammar, both optimizer profiles), exhaustive over inputs per program (<=12 bits). Says nothing about programs the generator does not emit.",
            "Trusted: CPython, the harness's tracked-value classes and typing discipline D, the bit-parallel boolean evaluator."),
    "C02": ("5.2", "post-condition monitor on the real compiler: bit-parallel reversible simulation of every qubit on all inputs vs. the expression list handed to the compiler; counterfactual attribution",
            "Exploration over generated programs and definition lists x {default, fast} x {uncompute on, off}, exhaustive over inputs per circuit.",
            "Trusted: own reversible simulator and boolean evaluator; expected values are taken from the post-optimizer expression list."),
    "C03": ("5.3", "post-condition monitor on every qubit after uncompute_all + replay-divergence forensics over hooked scratch-qubit life-cycle events",
            "Exploration over generated programs and lists, exhaustive over inputs; dirty cases are attributed to listed mechanisms only when the first deviation from the ideal replay matches and the scratch invariants held before the replay.",
            "Trusted: own reversible simulator; recording wrappers on uncompute/uncompute_all/get_free_ancilla."),
    "C04": ("5.4", "post-condition monitor on every optimizer step and on the list between any two steps of both profiles, bit-parallel equivalence on all assignments",
            "Exploration over random, pattern-directed, enumerated and front-end-captured lists; exhaustive over assignments per list.",
            "Trusted: own boolean evaluator (no use of sympy subs/simplify); sympy constructors for building inputs."),
    "C06": ("5.6", "post-condition monitor: reversible simulation on every (x, y) basis state, double application, forensics for blame",
            "Exploration over bool-returning programs/lists, exhaustive over inputs and both initial output values.",
            "Trusted: own reversible simulator; blame on C02/C03 root causes follows DESIGN 4.5."),
    "C09": ("5.9", "exhaustive codec monitor against an independent model of the documented encodings",
            "Exhaustive over all bit patterns of every shipped Qint/Qfixed/Qchar type; nested types exhaustive <=12 bits, boundary+random beyond.",
            "Trusted: the harness's model of the documented encodings."),
}
CHECKS.update({
    "C11": ("5.11", "post-condition monitor on Decompiler.decompile: independent scan for maximal classical runs + reversible simulation over symbolic entry values vs. the reported expressions",
            "Exploration over random/structured/compiled circuits (thorough: exhaustive <=3-gate circuits on 3 qubits); exhaustive over entry states per section.",
            "Trusted: own reversible simulator and boolean evaluator."),
    "C12": ("5.12", "post-condition monitor on circuit_boolean_optimizer: exact unitary / basis-action comparison, gate count, input immutability; recording wrapper counts re-synthesised sections",
            "Exploration over random, structured and compiled circuits.", "Trusted: own numpy unitary simulator (cross-checked against qiskit in the self-test)."),
    "C13": ("5.13", "export monitor: unitaries of exported Qiskit/Cirq/Sympy objects vs. own state-vector simulation with qubit i = qubit i; parser for the QASM dialect (formal parameters, body, invocation)",
            "Exploration over circuits x exporters x {circuit, gate}.", "Trusted: qiskit Operator, cirq.unitary, sympy represent as simulators of the exported objects; QASM angles compared within the two printed decimals."),
    "C14": ("5.14", "history monitor over composition operators: exact unitary of result vs. product of the parts, operand fingerprints re-read after mutating the result; remove_identities and qft/iqft post-conditions",
            "Exploration over circuit pairs, remappings, n in 1..5, all qubit lists up to length 5 (sampled in quick).", "Trusted: own numpy unitary simulator."),
})
CHECKS.update({
    "C05": ("5.5", "round-trip monitor: encode_input, input/output qubit lists, decode_output (str/list/int), decode_counts and circuit simulation vs. an independent codec model and the CPython reference",
            "Exploration over signature-directed programs (every type x nesting shape), all argument values <=10 input bits.", "Trusted: own codec model, reversible simulator, reference semantics; blame on C01/C02 root causes per DESIGN 4.5."),
    "C07": ("5.7", "reference-semantics monitor on caller/callee pairs (defs=, inline def, oraclize) + callee fingerprint before/after",
            "Exploration over (callee, caller) pairs incl. tuple-element, repeated/swapped arguments and hostile names; exhaustive over inputs.", "Trusted: CPython reference with the callee's Python function in scope."),
    "C08": ("5.8", "history monitor over binds of one unbound object: reference semantics per bound function, AST/parameter fingerprint after every bind, comparison with a fresh object",
            "Exploration over parameterised programs x value domains x keyword orders x histories with failing binds.", "Trusted: CPython reference; a bound parameter is typed as a literal (discipline D)."),
    "C10": ("5.10", "history + reference model: API-boundary recorder re-reads every live object's fingerprint after every operation and compares each result with the same operation run alone in a fresh interpreter; global-namespace and mutable-default snapshots",
            "Exploration over random histories of public API operations over a pool with same-name and library-global-named functions.", "Trusted: structural fingerprints; like-for-like (same tree, same hash seed)."),
    "C15": ("5.15", "exact output distributions of Grover circuits by sparse state-vector simulation, compared across syntactic forms and with an ideal hand-built oracle; black-box health monitors for blame",
            "Exploration over solution sets on 2..5 (thorough 6) search bits, 1..N/4 solutions, 4-9 forms each.", "Trusted: own sparse simulator (validated against the dense one and qiskit)."),
    "C16": ("5.16", "exact output distributions of Deutsch-Jozsa / Bernstein-Vazirani / Simon circuits by sparse state-vector simulation vs. the textbook guarantees; black-box health monitors for blame",
            "Exhaustive at truth-table level for DJ on 1..3 bits and all BV secrets on 1..5 bits; all Simon periods on 2..4 bits with several functions.", "Trusted: own sparse simulator."),
    "C17": ("5.17", "CLI monitor: main() run in-process and as subprocess; printed expressions parsed and compared on all assignments, DIMACS by search for a numbering, QASM with the API export",
            "Exploration over scripts x forms x formats x entry points x versions.", "Trusted: own parser of sympy's printed syntax and boolean evaluator."),
    "C18": ("5.18", "stand-in modelling library records the expression tree handed over by to_bqm; exact energies on every assignment vs. the count of true return bits; decode_samples vs. codec model",
            "Exploration over generated programs, exhaustive over argument assignments (<=10 bits).", "Trusted: the stand-in's documented polynomial semantics for pyqubo's logic gates and constraints."),
})
NOT_YET = {}


def main():
    props = [json.loads(l) for l in open(os.path.join(V, "properties.jsonl"))]
    checks = []
    for pid, (sec, tech, text, note) in sorted(CHECKS.items()):
        checks.append({
            "property_id": pid,
            "quick_cmd": f"{PY} -m vq.run check {pid} --tier quick",
            "thorough_cmd": f"{PY} -m vq.run check {pid} --tier thorough",
            "evidence_file": f"/verif/evidence/{pid}.json",
            "replay_cmd_template": f"{PY} -m vq.run replay {{path}}",
            "engine": "vq",
            "level_claimed": {"category": "exploration", "text": text, "design_ref": f"DESIGN.md section {sec}"},
            "level_note": note,
            "technique": "runtime monitoring: " + tech,
        })
    na = [{"property_id": p["id"], "reason": NOT_YET.get(p["id"], "check not built yet (work in progress); will be decided by runtime monitoring as described in DESIGN.md")}
          for p in props if p["id"] not in CHECKS]
    m = {
        "version": 1,
        "setup_cmd": f"cd /verif && {PY} -m vq.run selftest",
        "hooks": {
            "guard": "QLASSKIT_VERIF",
            "enable": "no source hooks in the repository: monitors are attached from outside by wrapping real functions/methods inside each worker process (QLASSKIT_VERIF=1 is exported to workers)",
            "baseline_off_cmd": "cd /repo && /venv/bin/python -m pytest -q -p no:cacheprovider --timeout=900 --continue-on-collection-errors -n 8",
            "source_commits": [],
            "add_only": True,
        },
        "engines": [{"name": "vq", "path": "/verif/vq", "serves_properties": sorted(CHECKS), "kind_free_text": "Python runtime-monitoring harness: seeded workload generators, recording wrappers on the real qlasskit functions, independent oracles (bit-parallel boolean evaluator, reversible and state-vector simulators, CPython reference semantics), sharded over 16 worker processes"}],
        "checks": checks,
        "notes": "Checks exit 0 (held on everything explored; KNOWN-FINDING lines for listed findings), 1 (VIOLATION lines) or 2 (INCONCLUSIVE: a deciding monitor observed nothing). Known findings: /verif/known_findings.json.",
        "not_applicable": na,
    }
    json.dump(m, open(os.path.join(V, "MANIFEST.json"), "w"), indent=1)


if __name__ == "__main__":
    main()
