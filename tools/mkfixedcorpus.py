#!/usr/bin/env python3
"""Create vq/props/fixed_corpus.json (committed; the fixed corpus of C02/C03/C06). Regenerate known_inputs.json afterwards."""
import json, sys
sys.path.insert(0, "/verif")
from vq.props import compilecases as K
d = K.make_fixed()
json.dump(d, open(K.FIXED_PATH, "w"), indent=0)
print({k: len(v) for k, v in d.items()})
