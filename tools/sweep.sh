#!/bin/bash
# usage: tools/sweep.sh "<seeds>" <tier> [ids...]   -- prints the final line(s) of every check
SEEDS=${1:-"0 1 2"}; TIER=${2:-quick}; shift 2
IDS=${@:-"C01 C02 C03 C04 C05 C06 C07 C08 C09 C10 C11 C12 C13 C14 C15 C16 C17 C18"}
for s in $SEEDS; do for p in $IDS; do
  out=$(VERIF_SEED=$s /venv/bin/python -m vq.run check $p --tier $TIER 2>&1 | grep -v conda)
  rc=$?
  echo "$out" | grep -E "^(VIOLATION|INCONCLUSIVE|  kind)" | cut -c1-400 | head -8
  echo "$out" | tail -1 | cut -c1-330
done; done
