#!/bin/bash
# usage: tools/seedtest.sh <worktree> <seed-name> "<check ids>"
# 1. confirm the seeded change in its worktree (demo fails with it, passes without, baseline suite green)
# 2. store it under /verif/seeded/<name>/ ; 3. apply to /repo, run the checks, undo.
WT=$1; NAME=$2; IDS=$3
set -u
mkdir -p /verif/seeded/$NAME
cd $WT || exit 9
git diff -- qlasskit > /verif/seeded/$NAME/patch.diff
cp $WT/demo.py /verif/seeded/$NAME/demo.py
[ -d $WT/demo_stubs ] && cp -r $WT/demo_stubs /verif/seeded/$NAME/
PYTHONPATH=$WT /venv/bin/python demo.py >/tmp/seed-demo-with.log 2>&1; WITH=$?
git apply -R /verif/seeded/$NAME/patch.diff
PYTHONPATH=$WT /venv/bin/python demo.py >/tmp/seed-demo-without.log 2>&1; WITHOUT=$?
git apply /verif/seeded/$NAME/patch.diff
echo "demo exit with change: $WITH   without: $WITHOUT"
/verif/tools/baseline.sh $WT; BL=$?
echo "baseline rc: $BL"
cd /verif
# SEED_VIA=worktree: run the checks against the (patched) scratch worktree instead of patching /repo
# (used while a background run is reading /repo); the default follows the brief: apply to /repo, run, undo.
if [ "${SEED_VIA:-repo}" = "worktree" ]; then
  export VQ_REPO=$WT
else
  if ! git -C /repo diff --quiet; then echo "/repo is dirty, abort"; exit 9; fi
  git -C /repo apply /verif/seeded/$NAME/patch.diff || { echo "patch does not apply"; exit 9; }
fi
RES=""
for p in $IDS; do
  out=$(/venv/bin/python -m vq.run check $p --tier quick 2>&1 | grep -v conda); rc=$?
  nv=$(echo "$out" | grep -c "^VIOLATION")
  echo "$out" | grep -E "^(VIOLATION|  kind|INCONCLUSIVE)" | head -4 | cut -c1-300
  echo "$out" | tail -1 | cut -c1-200
  RES="$RES $p:violations=$nv"
done
if [ "${SEED_VIA:-repo}" != "worktree" ]; then git -C /repo checkout -- .; fi
echo "RESULT $NAME demo_with=$WITH demo_without=$WITHOUT baseline_rc=$BL $RES"
