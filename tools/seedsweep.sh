#!/bin/bash
# Re-run every seeded change against the checks its meta.json says catch it. Prints one line per (seed, check).
cd /verif
if ! git -C /repo diff --quiet; then echo "/repo is dirty, abort"; exit 9; fi
for d in seeded/*/; do
  n=$(basename $d)
  ids=$(/venv/bin/python -c "import json;print(' '.join(json.load(open('$d/meta.json'))['caught_by'].keys()))" 2>/dev/null | grep -v conda)
  git -C /repo apply /verif/$d/patch.diff || { echo "SEED $n: patch does not apply"; continue; }
  for p in $ids; do
    out=$(/venv/bin/python -m vq.run check $p --tier quick 2>&1 | grep -v conda)
    nv=$(echo "$out" | grep -c "^VIOLATION")
    echo "SEED $n check=$p violations=$nv $( [ $nv -gt 0 ] && echo CAUGHT || echo MISSED )"
  done
  git -C /repo checkout -- .
done
